#!/bin/bash
# run every registered quick check once, sequentially, in /verif against /repo; print exit code and wall time per check
cd /verif
for id in C17 C16 C08 C11 C01 C02 C03 C04 C05 C06 C07 C09 C10 C12 C13 C14 C15 C18 C19 C20; do
  s=$(date +%s)
  python3-vt check.py $id --tier quick > /tmp/w/q_$id.log 2>&1; rc=$?
  e=$(date +%s)
  echo "$id exit=$rc wall=$((e-s))s $(grep -c '^VIOLATION' /tmp/w/q_$id.log) violations; $(tail -n 1 /tmp/w/q_$id.log | cut -c1-120)"
done
