#!/usr/bin/env python3
"""Regenerate MANIFEST.json from the table below (one row per claimed property)."""
import json, os
V = os.path.dirname(os.path.dirname(os.path.abspath(__file__)))
props = [json.loads(l) for l in open(os.path.join(V, 'properties.jsonl'))]
LL = 'llsym (own forking symbolic executor over the clang-14 LLVM IR of the real headers, z3 decides every branch/assertion)'
CB = 'll2c + CBMC 6.11 (C translated from the clang-14 LLVM IR of the real headers; SAT decides all assertions within the unwinding bound)'
ROWS = {
 'C01': ('model_checking', LL, 'bounded symbolic execution of Document::Parse vs RFC 8259 reference recogniser (z3)', 'All byte strings up to the stated length plus block-position families; every path of the real parser is explored and each assertion is decided by z3 for all inputs on that path. Bounded: nothing is claimed beyond the listed lengths/families.', '§3 C01'),
 'C02': ('model_checking', LL, 'bounded symbolic execution of Document::Parse with exact-object memory model + heap ledger (z3)', 'Same executions as C01 for pool and freeing allocator, with reuse history; memory oracle = exact-size objects, uninitialised-dependence tracking, heap ledger.', '§3 C02'),
 'C03': ('model_checking', LL, 'bounded symbolic execution: parsed DOM walked via public API in lock-step with a reference reader (z3)', 'Accepting paths of the C01 executions plus wide-container families; number values beyond kind are C04.', '§3 C03'),
 'C05': ('model_checking', LL, 'bounded symbolic execution of parseStringInplace (AVX2+SSE) vs reference un-escaper (z3)', 'All literal bodies up to the stated length, plus one/two-backslash, long-prefix and escape-first (copying phase) families that cross vector-block edges.', '§3 C05'),
 'C08': ('model_checking', CB, 'CBMC over IR-derived C of U64toa/I64toa, 128-bit Horner oracle, per value window', 'Per-window universal claim (2^16 / 2^20 consecutive values) at every digit-count boundary, group boundary and seeded pivots; translator validated each run; vacuity witness.', '§3 C08'),
 'C09': ('model_checking', LL, 'bounded symbolic execution of Quote (AVX2/SSE x production/sanitizer path) with page-end placement (z3)', 'Exact-size source at page-end distances, exact-size destination; all contents for short strings, <=1/2 escape positions for strings up to 70 bytes.', '§3 C09'),
 'C11': ('model_checking', LL, 'bounded symbolic execution of GetOnDemand on exact-size unpadded input (z3)', 'All byte strings up to the stated length x 12 paths, plus tail-length families around 32/64-byte blocks.', '§3 C11'),
 'C14': ('model_checking', LL, 'bounded symbolic execution of InlinedMemcmpEq/InlinedMemcmp with page-end placement (z3)', 'All lengths 0..100 (160 thorough), all contents, both operands at each page-end distance; production, sanitizer and SSE variants.', '§3 C14'),
 'C16': ('model_checking', LL, 'bounded symbolic execution of MemoryPoolAllocator under scripts with symbolic sizes vs reference model (z3)', 'Every 2-/3-step script with all sizes in range, both chunk policies, user buffer; then copy/Clear/move/destroy with heap ledger.', '§3 C16'),
}
EXTRA = {}
try:
    EXTRA = json.load(open(os.path.join(V, 'tools', 'manifest_rows.json')))
except Exception:
    pass
ROWS.update({k: tuple(v) for k, v in EXTRA.items()})
NA = {}
try:
    NA = json.load(open(os.path.join(V, 'tools', 'not_applicable.json')))
except Exception:
    pass
checks = []; na = []
for p in props:
    pid = p['id']
    if pid in ROWS:
        lvl, eng, tech, text, ref = ROWS[pid]
        eng = {'LL': LL, 'CB': CB, 'CB+LL': CB + ' + ' + LL}.get(eng, eng)
        checks.append(dict(property_id=pid, quick_cmd='python3-vt check.py %s --tier quick' % pid, thorough_cmd='python3-vt check.py %s --tier thorough' % pid,
                           evidence_file='evidence/%s.json' % pid, replay_cmd_template='python3-vt check.py %s --replay {path}' % pid, engine=eng,
                           level_claimed=dict(category=lvl, text=text, design_ref='DESIGN.md ' + ref),
                           level_note='trusted base: clang-14 lowering to IR, the engine\'s IR semantics (cross-checked by native replay of every counterexample and, for CBMC jobs, translator validation each run), z3/CBMC, reference models in harness/; allocation never fails; bounds as listed in the evidence jobs',
                           technique=tech))
    else:
        na.append(dict(property_id=pid, reason=NA.get(pid, 'check not built yet in this round (work in progress)')))
m = dict(version=1, setup_cmd='true',
         hooks=dict(guard='SONIC_VERIF', enable='harnesses are compiled with -DSONIC_VERIF; no hook code is committed in /repo (function boundaries are recovered with the include shim in shim/, not by editing the library)',
                    baseline_off_cmd='cmake --build /repo/_build -j16 && cd /repo/_build/tests && ./unittest', source_commits=[], add_only=True),
         engines=[dict(name='llsym', path='lib/llsym.py', serves_properties=[c['property_id'] for c in checks if c['engine'] == LL], kind_free_text=LL),
                  dict(name='ll2c+cbmc', path='lib/job_cbmc.py', serves_properties=[c['property_id'] for c in checks if c['engine'] == CB], kind_free_text=CB)],
         checks=checks, not_applicable=na,
         notes='All checks: python3-vt check.py <ID> --tier quick|thorough. Exit 0 = held on everything explored; exit 1 + VIOLATION line = reproduced counterexample; exit 2 = a job had no verdict (engine limit), never reported as success. Known findings: known_findings.txt.')
json.dump(m, open(os.path.join(V, 'MANIFEST.json'), 'w'), indent=1)
print('claimed', [c['property_id'] for c in checks]); print('n/a', [x['property_id'] for x in na])
