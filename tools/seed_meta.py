#!/usr/bin/env python3
"""Write seeded/<id>/meta.json and seeded/RESULTS.md from the table below and /tmp/seedrun/results.txt style result lines
(kept in seeded/results.txt)."""
import json, os, re
V = os.path.dirname(os.path.dirname(os.path.abspath(__file__)))
NEEDS = {
 'C01-m1': ('C01', 'AtofEiselLemire64 accepts exponent 0x7FF: numbers in (DBL_MAX, 2*DBL_MAX] (e.g. 1.8e308) are accepted as Inf instead of the infinity error; 1e309 still rejected'),
 'C01-m2': ('C01', 'control-byte check skipped when the block has a backslash: a raw control byte before the first escape in the same 32/16-byte block is accepted'),
 'C02-m1': ('C02', 'StartObject without capacity check: >= max(16,len/2+2) unclosed [ followed by { writes past the node stack (17-byte input [[[[[[[[[[[[[[[[{ )'),
 'C02-m2': ('C02', 'third sentinel byte not written: truncation inside a nested string + heap garbage ] or whitespace behind the sentinel => truncated text accepted / over-read'),
 'C03-m1': ('C03', 'Eisel-Lemire rounding-carry renormalisation removed: values half an ulp below a power of two with |exp10| >= 288/307 parse to half the value'),
 'C03-m2': ('C03', 'skip_space cached-bitmap mask off by one: a token preceded by exactly two whitespace bytes inside an already cached 64-byte block loses its first byte (-5 -> 5)'),
 'C04-m1': ('C04', 'two hex digits transposed in the low word of kPow10M128Tab row 10^-30: ~3 per million 17-digit significands on that row round up by one ulp'),
 'C04-m2': ('C04', 'DECIMAL_MAX_DNUM 800 -> 512: exact-tie / just-above-halfway inputs with more than 512 significant digits (tiny doubles) round down'),
 'C05-m1': ('C05', 'SkipString drops the escape carry between the vector loop and the scalar tail: on-demand key with \\" at offset 31/63/95 and less than one block of input after it'),
 'C05-m2': ('C05', 'control-byte test <= 0x1f became < 0x1f in the find_and_move scanner: raw 0x1F accepted only after an earlier escape and outside the first block'),
 'C06-m1': ('C06', 'Schubfach interval always closed (even flag dropped): odd significands >= 2^54 whose interval end point is rounder print a decimal that reads back as the neighbour'),
 'C06-m2': ('C06', 'kQuoteTab entry for 0x0B became \\v (not a JSON escape): any string containing byte 0x0B serialises to invalid JSON'),
 'C07-m1': ('C07', 'irregular correction dropped from the decimal-exponent estimate: exact powers of two at 33 of the 2046 binary exponents print 16 digits that read back as the neighbour'),
 'C07-m2': ('C07', 'hex-digit transposition in the Pow10CeilSig row for 10^74: ~6 per million doubles with biased exponent 830..832 print a non-shortest / non-closest / non-round-tripping decimal'),
 'C08-m1': ('C08', 'kVec4xDiv10k reciprocal truncated: values >= 10^8 with an 8-digit group abcd0000 print a ":" byte (150000000 -> 14999:000)'),
 'C08-m2': ('C08', 'hand-written /10^8 multiply-shift in Utoa_16 with a rounded-down constant: 17-20 digit values whose low 16 digits are xxxxxxxx00000000 print a ":" byte'),
 'C09-m1': ('C09', 'Quote tail page guard halved: production build, tail starting at page offset 4033..4064 with an escapable byte followed by more bytes reads into the next (unmapped) page'),
 'C09-m2': ('C09', 'kNeedEscaped bit moved from \\\\ to ]: a ] directly after an escaped byte reads kQuoteTab[]] = {0,nullptr} -> memcpy from null'),
 'C10-m1': ('C10', 'GetStringBits drops the escape carry across 64-byte blocks: a skipped/returned container holding a string with \\" whose backslash is byte 63 of a block'),
 'C10-m2': ('C10', 'SkipString reports "has escapes" only for escaped quotes: keys with \\n, \\\\, \\uXXXX and >= 32 bytes of text after the opening quote are compared raw'),
 'C11-m1': ('C11', 'skip_space_safe 64-byte loop turned into do-while: entered from the cached-block branch with < 64 bytes left it reads up to 63 bytes past the input'),
 'C11-m2': ('C11', 'SkipLiteral guard for false: start+5<=end became start+4<=end: target truncated right after "fals" reads one byte past the input'),
 'C12-m1': ('C12', 'removeMemberImpl maintains the map also when the tail is removed: stale map entry; after the next AddMember lookups of the removed key return the new member'),
 'C12-m2': ('C12', 'object growth cap += cap>>1: capacity-1 objects (parsed / copied one-member objects, MemberReserve(1)) never grow: AddMember writes past the allocation'),
 'C13-m1': ('C13', 'GenericDocument::Swap no longer swaps schema_str_: after ParseSchema + Swap + destruction of the other document, strings dangle (freeing allocator)'),
 'C13-m2': ('C13', 'containerRealloc re-constructs MetaNode (map=nullptr): growing an object that has a lookup map leaks the multimap (freeing allocator)'),
 'C14-m1': ('C14', 'InlinedMemcmpEq main loop bound i+32<avx2_end: keys >= 65 bytes, length not a multiple of 32, differing only in bytes [(s&~31)-32, s-32) compare equal'),
 'C14-m2': ('C14', 'cmp_lt_32 uses a signed byte compare: production path, prefix < 32 bytes, first differing bytes straddling 0x80 -> wrong sign'),
 'C15-m1': ('C15', 'SkipString uses GetEscaped<32> in the 16-byte kernel: SSE build only, \\" after exactly 15/31/47 plain bytes with >= 16 bytes following'),
 'C15-m2': ('C15', 'AVX2 StringBlock::Find uses < 0x1f: AVX2 builds accept a raw 0x1F before the first backslash, SSE rejects it'),
 'C16-m1': ('C16', 'Malloc checks capacity with the unaligned size: chunk capacity not a multiple of 8 -> block extends up to 7 bytes past the chunk, Size() > Capacity()'),
 'C16-m2': ('C16', 'AdaptiveChunkPolicy early return after clamping to 64 KiB: a single request > 64 KiB on a pool that has not reached 64 KiB gets a block larger than its chunk'),
 'C17-m1': ('C17', 'AtofNative uses a static Decimal scratch: threads parsing their own documents race when a number takes the big-decimal fallback (subnormals, > 19 digits)'),
 'C17-m2': ('C17', 'Realloc evaluates "is this the last block" before taking the lock (only with -DSONIC_LOCKED_ALLOCATOR): unlocked read of chunkHead/size, check-then-act'),
 'C18-m1': ('C18', 'subLength hoisted in removeMemberImpl: with a lookup map, removing a non-tail member leaves a stale map entry -> x == x false'),
 'C18-m2': ('C18', 'number equality via typed getters: -0.0 == 0.0 compares equal'),
 'C19-m1': ('C19', 'StartArray skips SetNull for empty containers: existing {} + text array containing an object: array lost, no error'),
 'C19-m2': ('C19', 'schema text buffer reused across ParseSchema calls: keys/strings built by an earlier call are overwritten by the next call (multi-step)'),
 'C20-m1': ('C20', 'InlinedMemcmp >= 32 bytes compares signed chars: map ordering inconsistent for non-ASCII keys on both sides of 32 bytes with >= 8 members -> duplicate key appended'),
 'C20-m2': ('C20', 'GetStringBits drops the escape carry across 64-byte blocks: valid nested value with \\" straddling a block edge is mis-skipped, members lost'),
}
res = {}
p = os.path.join(V, 'seeded', 'results.txt')
if os.path.exists(p):
    for ln in open(p):
        mm = re.match(r'seed=(\S+) property=(\S+) exit=(\d+) violations=(\d+)(.*)', ln.strip())
        if mm: res.setdefault(mm.group(1), []).append((mm.group(2), int(mm.group(3)), int(mm.group(4)), mm.group(5).strip()))
rows = []
for sid, (prop, needs) in sorted(NEEDS.items()):
    d = os.path.join(V, 'seeded', sid)
    if not os.path.isdir(d): continue
    runs = res.get(sid, [])
    caught = [r for r in runs if r[1] == 1 and r[2] > 0]
    meta = dict(id=sid, breaks_property=prop, needs_to_manifest=needs,
                confirmed='tools/confirm_seed.sh: patch applies to a scratch worktree, unit suite 173 pass / same 6 data-file tests fail, demo exits 0 without and non-zero with the change',
                checks_run=[dict(check=r[0], tier='quick' if 'thorough' not in r[3] else 'thorough', exit=r[1], violations=r[2], note=r[3]) for r in runs],
                detected_by=[r[0] + ((' ' + r[3]) if r[3] else '') for r in caught])
    json.dump(meta, open(os.path.join(d, 'meta.json'), 'w'), indent=1)
    rows.append((sid, prop, ', '.join(meta['detected_by']) or ('NOT DETECTED by: ' + ', '.join(r[0] + (' ' + r[3] if r[3] else '') for r in runs) if runs else 'not run'), needs))
with open(os.path.join(V, 'seeded', 'RESULTS.md'), 'w') as f:
    f.write('# Seeded changes (from independent sub-agents) and which check raised a reproduced VIOLATION on them\n\n')
    f.write('Every change compiles and passes the existing unit suite; each was confirmed with tools/confirm_seed.sh; checks were run with tools/run_seed.sh (patched scratch copy of /repo via VERIF_REPO).\n\n')
    f.write('| seed | property | detected by | what it needs to manifest |\n|---|---|---|---|\n')
    for r in rows: f.write('| %s | %s | %s | %s |\n' % r)
print(len(rows), 'seeds;', sum(1 for r in rows if not r[2].startswith('NOT') and r[2] != 'not run'), 'detected')
