#!/bin/bash
# run_seed.sh <seed dir under /verif/seeded> <property id> [--only regex] : run a check against a patched scratch copy of /repo
seed=$1; pid=$2; shift 2
name=$(basename $seed)
W=/tmp/seedrun/$name; rm -rf $W; mkdir -p /tmp/seedrun
git -C /repo worktree add -q --detach $W/repo HEAD || exit 9
git -C $W/repo apply $seed/patch.diff || { echo "patch does not apply"; exit 9; }
mkdir -p $W/out $W/work
cd /verif
VERIF_REPO=$W/repo VERIF_OUT=$W/out VERIF_WORK=$W/work timeout 5400 python3-vt check.py $pid "$@" > $W/log.txt 2>&1
rc=$?
echo "seed=$name property=$pid exit=$rc violations=$(grep -c '^VIOLATION' $W/log.txt)" | tee -a /tmp/seedrun/results.txt
grep -m3 -A2 '^VIOLATION' $W/log.txt | cut -c1-260
git -C /repo worktree remove --force $W/repo
rm -rf $W/work
