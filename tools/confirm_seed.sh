#!/bin/bash
# confirm_seed.sh <name> <dir with patch.diff demo.cpp> [extra g++ flags for the demo]
# Confirms in a scratch worktree (outside /repo and /verif) that the change applies, the unit tests still pass
# (173 pass / the 6 data-file tests fail), and the demo passes without / fails with the change.
name=$1; src=$2; shift 2; extra="$@"
WT=/tmp/confirm/wt
mkdir -p /tmp/confirm
if [ ! -d $WT ]; then git -C /repo worktree add -q --detach $WT HEAD || exit 9; fi
git -C $WT checkout -q --detach $(git -C /repo rev-parse HEAD) && git -C $WT checkout -q -- . 
out=/tmp/confirm/$name.txt; : > $out
FL="-std=c++17 -O2 -mavx2 -mpclmul -mbmi -mlzcnt"
g++ $FL $extra -I $WT/include $src/demo.cpp -o /tmp/confirm/demo_clean 2>>$out && (cd /tmp/confirm && timeout 600 ./demo_clean >/dev/null 2>&1; echo "demo_clean_exit=$?" >> $out)
git -C $WT apply $src/patch.diff 2>>$out || { echo "apply=FAILED" >> $out; exit 1; }
echo "apply=ok" >> $out
g++ $FL $extra -I $WT/include $src/demo.cpp -o /tmp/confirm/demo_mut 2>>$out && (cd /tmp/confirm && timeout 600 ./demo_mut >/dev/null 2>&1; echo "demo_mutant_exit=$?" >> $out)
if [ ! -d $WT/_build ]; then
  cmake -G Ninja -S $WT -B $WT/_build -DCMAKE_BUILD_TYPE=RelWithDebInfo -DBUILD_UNITTEST=ON -DFETCHCONTENT_SOURCE_DIR_GOOGLETEST=/usr/src/googletest -DFETCHCONTENT_TRY_FIND_PACKAGE_MODE=ALWAYS -DFETCHCONTENT_UPDATES_DISCONNECTED=ON -DCMAKE_CXX_FLAGS=-Wno-error > /tmp/confirm/cmake.log 2>&1
fi
cmake --build $WT/_build -j6 > /tmp/confirm/build.log 2>&1 || echo "build=FAILED" >> $out
(cd $WT/_build/tests && timeout 900 ./unittest > /tmp/confirm/unittest.log 2>&1)
echo "tests_passed=$(grep -c '^\[       OK \]' /tmp/confirm/unittest.log) tests_failed=$(grep -c '^\[  FAILED  \] .*(' /tmp/confirm/unittest.log)" >> $out
grep '^\[  FAILED  \] .*(' /tmp/confirm/unittest.log | sed 's/,.*//' | sort -u | tr '\n' ' ' >> $out; echo >> $out
git -C $WT checkout -q -- .
cat $out
