// C05: the string-literal decoder kernel (the configuration's parseStringInplace) against the reference un-escaper.
//   param0 = N (symbolic literal bytes after the opening quote), param1 = max number of backslashes among them
//   (N+1 = unrestricted), param2 = number of leading plain symbolic bytes before the unrestricted tail (family),
//   param3 = 1: "escape first" family: byte 0 is a backslash (so the decoder is in its copying phase from the start), every
//   other byte is no backslash, bytes 6 .. N-3 are plain and the last two bytes are unrestricted (any raw control byte, quote)
// Buffer is document-style: N bytes + the sentinel  x"x  + 61 never-written pad bytes, in an object of N+64 bytes.
#include "sonic/internal/arch/simd_quote.h"
#include "sonic/error.h"
#include "verif.h"
#include "ref_json.h"
#include <stdlib.h>
#include <string.h>

extern "C" int h_str(void) {
  size_t n = verif_param(0), maxbs = verif_param(1), plain = verif_param(2);
  uint8_t* buf = (uint8_t*)malloc(n + 64);
  static uint8_t orig[256], dec[256];
  verif_symbolic(buf, n, "lit");
  // family "at most maxbs backslashes": their positions p1 <= p2 are picked first (the engine forks over them, n = none) and every
  // other byte is constrained to be no backslash; byte values stay symbolic everywhere (also at p1/p2, which may hold any byte)
  size_t p1 = n, p2 = n;
  long escfirst = verif_param(3);
  if (escfirst) {
    p1 = 0; verif_assume(buf[0] == '\\');
    for (size_t i = 6; i + 2 < n; i++) verif_assume(buf[i] >= 0x20 && buf[i] != '"');
  } else if (maxbs <= n) {
    if (maxbs >= 1) p1 = verif_concrete(verif_range(plain, n, "bs1"));
    if (maxbs >= 2) p2 = verif_concrete(verif_range(p1, n, "bs2"));
  }
  for (size_t i = 0; i < n; i++) {
    if (i < plain) verif_assume(buf[i] >= 0x20 && buf[i] != '"' && buf[i] != '\\');
    else if (maxbs <= n && i != p1 && i != p2) verif_assume(buf[i] != '\\');
  }
  buf[n] = 'x'; buf[n + 1] = '"'; buf[n + 2] = 'x';
  memcpy(orig, buf, n);
  // reference
  const uint8_t* rp = orig; size_t rlen = 0;
  int rc = ref::parse_string(rp, orig + n, dec, &rlen);
  size_t rcur = rp - orig;
  // implementation
  uint8_t* src = buf;
  sonic_json::SonicError err = sonic_json::kErrorNone;
  size_t len = sonic_json::internal::parseStringInplace(src, err);
  size_t cur = src - buf;
  if (err == sonic_json::kErrorNone) {
    if (rc == ref::R_OK) {
      if (cur != rcur) verif_fail("C05: cursor after the literal differs from the reference");
      if (len != rlen) verif_fail("C05: decoded length differs from the reference");
      int same = 1;
      for (size_t i = 0; i < rlen; i++) same &= (buf[i] == dec[i]);
      verif_check(same, "C05: decoded bytes differ from the reference");
      for (size_t i = 0; i < rlen; i++) verif_check_independent(buf[i], "C05: decoded byte");
      verif_check_independent(len, "C05: decoded length");
    } else if (rc == ref::R_INVALID) {
      // unterminated within the input: only acceptable if the decoder stopped at the sentinel quote, past the input
      if (cur <= n) verif_fail("C05: accepts a literal that is not terminated inside the input");
    } else {
      verif_fail(rc == ref::R_UNI ? "C05: accepts a literal with a malformed \\u escape or unpaired surrogate"
                 : rc == ref::R_ESC ? "C05: accepts a literal with an unknown escape" : "C05: accepts a literal with a raw control byte");
    }
  } else {
    if (rc == ref::R_OK) verif_fail("C05: rejects a well-formed literal");
    if (!(err == sonic_json::kParseErrorUnEscaped || err == sonic_json::kParseErrorEscapedFormat || err == sonic_json::kParseErrorEscapedUnicode))
      verif_fail("C05: rejection with a code that is not a string fault class");
  }
  free(buf);
  return rc;
}
