// C16: the pool allocator driven by a script of operations with SYMBOLIC sizes, against a small reference model of
// its documented behaviour.  Blocks are filled with distinct tags and re-read after every step (disjoint / undisturbed);
// the engine's exact-object memory model checks that every block lies inside one chunk.
//   param0 = chunk capacity passed to the constructor, param1 = number of script steps, param2 = largest request size,
//   param3 = 1: user-supplied initial buffer of param4 bytes placed at misalignment param5, param6 = 1: the first request is one of
//   {65536, 65537, 70000, 131073} bytes
#include "sonic/allocator.h"
#include "verif.h"
#include <stdlib.h>
#include <string.h>

#ifdef POLICY_ADAPTIVE
using Policy = sonic_json::AdaptiveChunkPolicy;
#else
using Policy = sonic_json::SimpleChunkPolicy;
#endif
using Pool = sonic_json::MemoryPoolAllocator<sonic_json::SimpleAllocator, Policy>;

static size_t al8(size_t x) { return (x + 7) & ~(size_t)7; }

struct Model {
  size_t head_cap, head_size, total_cap, total_size, first_cap, policy_min;
  size_t chunk_for(size_t need) {
#ifdef POLICY_ADAPTIVE
    const size_t MAXC = SONIC_ALLOCATOR_MAX_CHUNK_CAPACITY;
    if (policy_min < need && policy_min < MAXC) {
      size_t p = 1; while (p <= need) p <<= 1;
      policy_min = p < MAXC ? p : MAXC;
    }
#endif
    return policy_min > need ? policy_min : need;
  }
  bool alloc(size_t a) {   // a already aligned; returns true if a fresh chunk was opened
    bool fresh = false;
    if (head_size + a > head_cap) { size_t c = chunk_for(a); head_cap = c; head_size = 0; total_cap += c; fresh = true; }
    head_size += a; total_size += a;
    return fresh;
  }
};

struct Blk { uint8_t* p; size_t n; size_t req; uint8_t tag; };   // n = bytes certainly inside the block (aligned size - 7), req = symbolic request

extern "C" int h_pool(void) {
  size_t cap = verif_param(0), steps = verif_param(1), maxreq = verif_param(2);
  long userbuf = verif_param(3); size_t ubsize = verif_param(4), misal = verif_param(5);
  uint8_t* raw = nullptr;
  Model m; m.policy_min = cap; m.total_size = 0;
  Pool* pool;
  if (userbuf) {
    raw = (uint8_t*)malloc(ubsize + 16);
    uint8_t* ub = raw + misal;
    pool = new Pool(ub, ubsize, cap);
    size_t lost = ((uintptr_t)ub & 7) ? 8 - ((uintptr_t)ub & 7) : 0;
    m.head_cap = m.first_cap = m.total_cap = ubsize - lost - 32 - 24;
  } else {
    pool = new Pool(cap);
    m.head_cap = m.first_cap = m.total_cap = 0;
  }
  m.head_size = 0;
  Blk blk[8]; size_t nb = 0; uint8_t* last = nullptr; size_t last_n = 0;
  for (size_t s = 0; s < steps; s++) {
    size_t op = verif_concrete(verif_range(0, nb ? 2 : 0, "op"));   // 0 Malloc, 1 Realloc of an earlier block, 2 Realloc(null)
    size_t req = verif_range(0, maxreq, "size");
    if (verif_param(6) && s == 0) {   // first request larger than the 64 KiB maximum chunk capacity (exercises the policy's clamp)
      static const size_t kBig[] = {65536, 65537, 70000, 131073};
      req = kBig[verif_concrete(verif_range(0, 3, "big"))]; op = 0;
    }
    uint8_t tag = (uint8_t)(0xA0 + s);
    if (op == 0 || op == 2) {
      uint8_t* p = (uint8_t*)(op == 0 ? pool->Malloc(req) : pool->Realloc(nullptr, 0, req));
      if (req == 0) { if (p) verif_fail("C16: zero-size request returned a block"); continue; }
      if (!p) verif_fail("C16: allocation returned null although memory is available");
      size_t a = al8(req);
      m.alloc(a);
      p = (uint8_t*)verif_concrete((uint64_t)p);
      size_t sure = verif_concrete(a) - 7;       // the request is one of the 8 sizes of this aligned class: fork per class only
      if ((uintptr_t)p & 7) verif_fail("C16: block is not 8-byte aligned");
      memset(p, tag, sure);                      // out of the chunk => engine reports the write
      blk[nb].p = p; blk[nb].n = sure; blk[nb].req = req; blk[nb].tag = tag; nb++;
      last = p; last_n = a;
    } else {
      size_t i = verif_concrete(verif_range(0, nb - 1, "which"));
      Blk& b = blk[i];
      if (b.n == 0) continue;                    // block was moved by an earlier Realloc: not a live block any more
      uint8_t* p = (uint8_t*)pool->Realloc(b.p, b.req, req);
      if (req == 0) { if (p) verif_fail("C16: Realloc to size 0 returned a block"); continue; }
      size_t ao = b.n + 7, an = verif_concrete(al8(req));
      if (ao >= an) {
        if (p != b.p) verif_fail("C16: shrinking Realloc moved the block");
      } else {
        bool is_last = (b.p == last) && (last_n == ao);
        if (is_last && m.head_size + (an - ao) <= m.head_cap) {
          if (p != b.p) verif_fail("C16: Realloc of the most recent block with room did not grow in place");
          m.head_size += an - ao; m.total_size += an - ao; last_n = an;
        } else {
          if (!p) verif_fail("C16: Realloc returned null although memory is available");
          if (p == b.p) verif_fail("C16: Realloc grew in place without being the most recent block with room");
          m.alloc(an); last = p; last_n = an;
        }
      }
      p = (uint8_t*)verif_concrete((uint64_t)p);
      if ((uintptr_t)p & 7) verif_fail("C16: reallocated block is not 8-byte aligned");
      size_t keep = (ao < an ? ao : an) - 7;     // <= min(old request, new request)
      int same = 1;
      for (size_t k = 0; k < keep; k++) same &= (p[k] == b.tag);
      verif_check(same, "C16: Realloc did not preserve the first min(old,new) bytes");
      size_t sure = (ao >= an ? ao : an) - 7;    // a shrinking Realloc keeps the old block
      if (p != b.p) { blk[nb].p = p; blk[nb].n = sure; blk[nb].req = req; blk[nb].tag = tag; memset(p, tag, sure); nb++; b.n = 0; }
      else if (ao < an) { memset(p, tag, sure); b.n = sure; b.req = req; b.tag = tag; }
    }
    // every live block still holds its tag (disjoint, undisturbed)
    int ok = 1;
    for (size_t i = 0; i < nb; i++) for (size_t k = 0; k < blk[i].n; k++) ok &= (blk[i].p[k] == blk[i].tag);
    verif_check(ok, "C16: an earlier block was disturbed by a later allocation");
    verif_check(pool->Size() == m.total_size, "C16: Size() does not account for what was handed out");
    verif_check(pool->Capacity() == m.total_cap, "C16: Capacity() does not match the chunks opened");
  }
  // copies share one pool that stays valid until the last copy dies
  {
    Pool* copy = new Pool(*pool);
    if (!pool->Shared() || !(*copy == *pool)) verif_fail("C16: a copy does not share the pool");
    delete pool;
    int ok = 1;
    for (size_t i = 0; i < nb; i++) for (size_t k = 0; k < blk[i].n; k++) ok &= (blk[i].p[k] == blk[i].tag);
    verif_check(ok, "C16: blocks invalid after the original allocator was destroyed while a copy lives");
    uint8_t* q = (uint8_t*)copy->Malloc(8);
    if (!q || ((uintptr_t)q & 7)) verif_fail("C16: surviving copy cannot allocate");
    memset(q, 0x55, 8);
    copy->Clear();
    verif_check(copy->Size() == 0, "C16: Size() not zero after Clear");
    verif_check(copy->Capacity() == m.first_cap, "C16: Clear kept more than the first chunk");
    q = (uint8_t*)copy->Malloc(8);
    if (!q) verif_fail("C16: allocation after Clear failed");
    memset(q, 0x66, 8);
    Pool moved(std::move(*copy));
    delete copy;
    q = (uint8_t*)moved.Malloc(16);
    if (!q) verif_fail("C16: moved-to allocator cannot allocate");
    memset(q, 0x77, 16);
  }
  if (raw) free(raw);
  if (verif_live_heap() != 0) verif_fail("C16: chunks still allocated after the last copy was destroyed");
  return 0;
}
