// C08: U64toa / I64toa against the canonical decimal spelling, on a window  v = base + delta, delta < 2^W.
//   param0 = base (64-bit), param1 = W, param2 = 1 for the signed entry
#include "sonic/internal/itoa.h"
#include "verif.h"
#include <stdlib.h>

extern "C" int h_itoa(void) {
  uint64_t base = (uint64_t)verif_param(0); unsigned W = (unsigned)verif_param(1); long sgn = verif_param(2);
  uint64_t delta = verif_range(0, W >= 64 ? UINT64_MAX : ((1ull << W) - 1), "delta");
  uint64_t v = base + delta;
  char* buf = (char*)malloc(33);      // what the serializer reserves for a number
  char* end = sgn ? sonic_json::internal::I64toa(buf, (int64_t)v) : sonic_json::internal::U64toa(buf, v);
  size_t len = (size_t)(end - buf);
  len = verif_concrete(len);
  const unsigned char* p = (const unsigned char*)buf;
  bool neg = sgn && (int64_t)v < 0;
  uint64_t mag = neg ? (uint64_t)0 - v : v;
  if (neg) {
    if (len < 2 || p[0] != '-') verif_fail("C08: negative value without a leading minus");
    p++; len--;
  }
  if (len < 1 || len > 20) verif_fail("C08: digit count outside 1..20");
  int ok = 1; unsigned __int128 acc = 0;
  for (size_t i = 0; i < len; i++) {
    ok &= (p[i] >= '0' && p[i] <= '9');
    acc = acc * 10 + (unsigned)(p[i] - '0');
  }
  verif_check(ok, "C08: non-digit byte in the output");
  verif_check(len == 1 || p[0] != '0', "C08: leading zero");
  verif_check(acc == (unsigned __int128)mag, "C08: digits do not spell the value");
  free(buf);
  return (int)len;
}
