// Harness API shared by the symbolic engines (lib/llsym.py, lib/ll2c.py+CBMC) and the native replay runtime
// (harness/verif_native.cpp).  A harness is `extern "C" int h_xxx(void)`; it obtains its symbolic inputs
// through these calls, runs the REAL library code, and reports a property violation with verif_check/verif_fail.
#pragma once
#include <stddef.h>
#include <stdint.h>
#ifdef __cplusplus
extern "C" {
#endif
void verif_symbolic(void* p, size_t n, const char* name);        // fill p[0..n) with unconstrained bytes
uint64_t verif_range(uint64_t lo, uint64_t hi, const char* name); // unconstrained value in [lo,hi]
void verif_assume(int c);                                        // restrict the inputs (path dropped if c==0)
void verif_check(int c, const char* what);                       // property: c must be non-zero for all inputs
void verif_fail(const char* what);                               // property violated on this path
long verif_param(int i);                                         // concrete job parameter i (bounds, family selectors)
long verif_live_heap(void);                                      // number of live malloc/new blocks (engine heap ledger)
void verif_note(const char* what, long v);
uint64_t verif_concrete(uint64_t v);                             // fork over every feasible value of v
int verif_is_replay(void);
void* verif_alloc_page_end(size_t n, size_t dist, size_t slack);  // n-byte block ending `dist` bytes before an unmapped page; `slack` (<= dist) foreign readable bytes follow it
void verif_map_slack(const void* end, size_t k);                 // k foreign-but-mapped bytes after `end`
void verif_check_independent(uint64_t v, const char* what);      // v must not depend on never-written memory
// write-set / lockset tracking (C17)
void verif_track_begin(int mode);   // 1: read-only ops on shared memory, 3: no writes to globals
void verif_track_end(void);
void verif_track_private(const void* p);            // the heap block containing p belongs to the calling thread only
void verif_track_shared_range(const void* p, size_t n);  // pool metadata that must be accessed under the allocator lock (mode 2)
void verif_track_mode(int mode);
void verif_check_independent_mem(const void* p, size_t n, const char* what);
#ifdef __cplusplus
}
#endif
