// C14 (kernel level): the configuration's InlinedMemcmpEq / InlinedMemcmp against bytewise comparison.
//   param0..1 = range of the length s, param2 = 1: every page-end distance 0..34 and 'far' for both operands (0: ten
//   boundary distances), param3 = 0: Eq, 1: three-way, param4 = 1: no readable slack after the operands (sanitizer contract).   The operands are objects of exactly s bytes followed by the rest
//   of their page (at most 64 readable foreign bytes) and then an unmapped page.
#include <cstdint>
#include <cstddef>
#include <cstring>
#include "verif.h"
#include "sonic/internal/arch/simd_base.h"
#include <stdlib.h>
#include <string.h>

static const size_t kDistQuick[] = {0, 1, 2, 15, 16, 17, 31, 32, 33, 64};
static const size_t kDistFew[] = {0, 1, 16, 31, 32, 64};

static size_t pick_dist(long all, const char* name) {
  if (all == 1) { size_t d = verif_concrete(verif_range(0, 35, name)); return d == 35 ? 64 : d; }
  if (all == 2) return kDistFew[verif_concrete(verif_range(0, 5, name))];
  if (all == 3) return 64;
  return kDistQuick[verif_concrete(verif_range(0, 9, name))];
}

extern "C" int h_memcmp(void) {
  size_t s = verif_concrete(verif_range(verif_param(0), verif_param(1), "len"));
  long all = verif_param(2), mode = verif_param(3), noslack = verif_param(4);
  size_t da = pick_dist(all, "dist_a"), db = pick_dist(all, "dist_b");
  uint8_t* a = (uint8_t*)verif_alloc_page_end(s, da, noslack ? 0 : 64);
  uint8_t* b = (uint8_t*)verif_alloc_page_end(s, db, noslack ? 0 : 64);
  verif_symbolic(a, s, "a");
  verif_symbolic(b, s, "b");
  if (mode == 0) {
    unsigned acc = 0;
    for (size_t i = 0; i < s; i++) acc |= (unsigned)(a[i] ^ b[i]);
    bool r = sonic_json::internal::InlinedMemcmpEq(a, b, s);
    verif_check(r == (acc == 0), "C14: InlinedMemcmpEq differs from bytewise equality");
    verif_check_independent(r, "C14: InlinedMemcmpEq result");
    return r;
  }
  int ref = 0;
  for (size_t i = s; i-- > 0;) { int d = (int)a[i] - (int)b[i]; ref = d ? d : ref; }
  int r = sonic_json::internal::InlinedMemcmp(a, b, s);
  verif_check((r < 0) == (ref < 0) && (r > 0) == (ref > 0), "C14: InlinedMemcmp sign differs from memcmp");
  verif_check_independent((uint64_t)(r < 0) * 2 + (r > 0), "C14: InlinedMemcmp result");
  return r;
}
