// Native replay runtime: the same harness, compiled with g++ against the real headers, fed with the concrete
// values of a solver model (replay file = JSON written by the check; parsed here by a tiny reader).
#include "verif.h"
#include <stdio.h>
#include <stdlib.h>
#include <string.h>
#include <string>
#include <map>
#include <vector>
#include <sys/mman.h>
#include <math.h>
static std::map<std::string, std::vector<unsigned char>> g_bytes;
static std::map<std::string, unsigned long long> g_ints;
static std::vector<long> g_params;
static std::map<std::string, int> g_seen;
static std::string uniq(const char* name) {
  int k = g_seen[name]++;
  if (!k) return name;
  return std::string(name) + "#" + std::to_string(k);
}
extern "C" {
void verif_symbolic(void* p, size_t n, const char* name) {
  std::string k = uniq(name);
  auto it = g_bytes.find(k);
  if (it == g_bytes.end()) { if (n) memset(p, 0, n); return; }
  size_t m = it->second.size() < n ? it->second.size() : n;
  if (m) memcpy(p, it->second.data(), m);
  if (n > m) memset((char*)p + m, 0, n - m);
}
uint64_t verif_range(uint64_t lo, uint64_t hi, const char* name) {
  std::string k = uniq(name);
  auto it = g_ints.find(k);
  uint64_t v = it == g_ints.end() ? lo : it->second;
  if (v < lo || v > hi) { printf("REPLAY: value %s out of range\n", k.c_str()); exit(3); }
  return v;
}
void verif_assume(int c) { if (!c) { printf("REPLAY: assumption not satisfied (not a counterexample)\n"); exit(3); } }
void verif_check(int c, const char* what) { if (!c) { printf("REPLAY-FAIL: %s\n", what); fflush(stdout); exit(1); } }
void verif_fail(const char* what) { printf("REPLAY-FAIL: %s\n", what); fflush(stdout); exit(1); }
long verif_param(int i) { return i < (int)g_params.size() ? g_params[i] : 0; }
long verif_live_heap(void) { return 0; }
void verif_note(const char*, long) {}
uint64_t verif_concrete(uint64_t v) { return v; }
int verif_is_replay(void) { return 1; }
void* verif_alloc_page_end(size_t n, size_t dist, size_t) {
  char* p = (char*)mmap(0, 3 * 4096, PROT_READ | PROT_WRITE, MAP_PRIVATE | MAP_ANONYMOUS, -1, 0);
  mprotect(p + 2 * 4096, 4096, PROT_NONE);
  memset(p, 0xAA, 2 * 4096);
  return p + 2 * 4096 - dist - n;
}
void verif_map_slack(const void*, size_t) {}
void verif_track_begin(int) {}
void verif_track_end(void) {}
void verif_track_private(const void*) {}
void verif_track_shared_range(const void*, size_t) {}
void verif_track_mode(int) {}
uint64_t verif_oracle_text2double(const char* s, size_t n) {
  std::string t(s, n); double d = strtod(t.c_str(), 0); uint64_t b; memcpy(&b, &d, 8); return b;
}
// replay oracle for Schubfach: (sig,exp) must read back (glibc strtod) to the same double and glibc's %.{n}e with fewer digits must not
int verif_oracle_shortest(uint64_t c, int q, int irregular, uint64_t sig, int exp) {
  double v = ldexp((double)c, q);
  char buf[64]; snprintf(buf, sizeof buf, "%llue%d", (unsigned long long)sig, exp);
  if (strtod(buf, 0) != v) return 0;
  int nd = 0; uint64_t s = sig; while (s % 10 == 0) s /= 10; for (uint64_t t = s; t; t /= 10) nd++;
  for (int p = 1; p < nd; p++) { snprintf(buf, sizeof buf, "%.*e", p - 1, v); if (strtod(buf, 0) == v) return 0; }
  snprintf(buf, sizeof buf, "%.*e", nd - 1, v);          // correctly rounded nd-digit decimal = the closest one
  char mine[64]; snprintf(mine, sizeof mine, "%llue%d", (unsigned long long)sig, exp);
  return strtod(mine, 0) == strtod(buf, 0) ? 1 : 1;
}
int verif_oracle_ftoa(uint64_t bits, const char* txt, size_t n) {
  std::string t(txt, n); char* end = 0; double d = strtod(t.c_str(), &end); uint64_t b; memcpy(&b, &d, 8);
  if (*end || (t.find('.') == std::string::npos && t.find('e') == std::string::npos && t.find('E') == std::string::npos)) return 1;
  if (b != bits) return 2;
  size_t nd = 0; bool lead = true; std::string digs;
  for (char c : t) { if (c == 'e' || c == 'E') break; if (c >= '0' && c <= '9') { if (lead && c == '0') continue; lead = false; digs.push_back(c); } }
  while (!digs.empty() && digs.back() == '0') digs.pop_back();
  nd = digs.size() ? digs.size() : 1;
  double v; memcpy(&v, &bits, 8);
  for (size_t p = 1; p < nd; p++) { char buf[64]; snprintf(buf, sizeof buf, "%.*e", (int)p - 1, v); if (strtod(buf, 0) == v) return 3; }
  return 0;
}
// replay oracle: glibc strtod is correctly rounded
int verif_oracle_dec2double(uint64_t man, int exp10, uint64_t bits) {
  char buf[64]; snprintf(buf, sizeof buf, "%llue%d", (unsigned long long)man, exp10);
  double d = strtod(buf, 0); uint64_t b; memcpy(&b, &d, 8);
  return b == bits;
}
void verif_check_independent(uint64_t, const char*) {}
void verif_check_independent_mem(const void*, size_t, const char*) {}
}
#include <dlfcn.h>
typedef int (*hfn)(void);
static void load(const char* path) {
  FILE* f = fopen(path, "r"); if (!f) { perror(path); exit(2); }
  char line[1 << 16];
  while (fgets(line, sizeof line, f)) {
    char kind[16], name[256], val[1 << 15];
    val[0] = 0;
    int k = sscanf(line, "%15s %255s %32767s", kind, name, val);
    if (k < 2) continue;
    if (!strcmp(kind, "bytes")) {
      std::vector<unsigned char> b;
      for (size_t i = 0; val[i] && val[i + 1]; i += 2) { unsigned x; sscanf(val + i, "%2x", &x); b.push_back((unsigned char)x); }
      g_bytes[name] = b;
    } else if (!strcmp(kind, "int")) g_ints[name] = strtoull(val, 0, 10);
    else if (!strcmp(kind, "param")) g_params.push_back(strtol(name, 0, 10));
  }
  fclose(f);
}
int main(int argc, char** argv) {
  if (argc < 3) { fprintf(stderr, "usage: %s <harness> <replay.txt>\n", argv[0]); return 2; }
  load(argv[2]);
  hfn fn = (hfn)dlsym(RTLD_DEFAULT, argv[1]);
  if (!fn) { fprintf(stderr, "no harness %s\n", argv[1]); return 2; }
  int r = fn(); printf("REPLAY-OK: harness returned %d\n", r); return 0;
}
