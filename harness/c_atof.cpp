// C04 (back ends): the table-driven text->double kernels on a window of mantissas, for one decimal exponent per job,
// against exact big-integer rounding (oracle supplied by the engine: CBMC bit-vectors of 1400 bits / glibc strtod in replay).
//   param0 = kernel (0 AtofEiselLemire64, 1 ParseFloatingNormalFast), param1 = decimal exponent (as int), param2 = base mantissa,
//   param3 = W (window = base + delta, delta < 2^W), param4 = sign (1 / -1 encoded as 0 / 1)
#include "sonic/internal/atof_native.h"
#include "sonic/internal/parse_number_normal_fast.h"
#include "verif.h"
#include <string.h>

extern "C" int verif_oracle_dec2double(uint64_t man, int exp10, uint64_t bits);   // 1 iff bits == nearest-even double of man*10^exp10 (finite, normal)

extern "C" int h_atof(void) {
  long kernel = verif_param(0); int exp10 = (int)verif_param(1); uint64_t base = (uint64_t)verif_param(2); unsigned W = (unsigned)verif_param(3);
  int sgn = verif_param(4) ? -1 : 1;
  uint64_t delta = verif_range(0, (1ull << W) - 1, "delta");
  uint64_t man = base + delta;
  verif_assume(man != 0);
  uint64_t bits = 0; bool ok;
  if (kernel == 0) { double d = 0; ok = sonic_json::internal::AtofEiselLemire64(man, exp10, sgn, &d); memcpy(&bits, &d, 8); }
  else { ok = sonic_json::internal::ParseFloatingNormalFast(bits, exp10, man, sgn); }
  if (verif_param(5)) { verif_check(!ok, "WITNESS: the kernel accepts some mantissa of the window"); return 0; }   // vacuity twin: must be violated
  if (!ok) return 0;                               // the kernel may decline; the caller then falls back
  verif_check(((bits >> 63) != 0) == (sgn < 0), "C04: sign of the result differs from the sign of the text");
  verif_check(verif_oracle_dec2double(man, exp10, bits & 0x7fffffffffffffffull), "C04: result is not the correctly rounded (nearest, ties-to-even) double");
  return 1;
}
