// C19 (ParseSchema) and C20 (UpdateLazy): real merge operations on texts built from concrete skeletons with symbolic
// 2-byte value slots, against the merge the property states, computed on parsed copies with the (C12-checked) DOM API.
//   param0 = 19 or 20, param1 = skeleton of the existing document / target, param2 = skeleton of the text / source,
//   param3 = 1: apply ParseSchema twice (C19)
#include "sonic/sonic.h"
#include "sonic/experiment/lazy_update.h"
#include "verif.h"
#include "ref_json.h"
#include <stdlib.h>
#include <string.h>

#ifdef ALLOC_SIMPLE
using Alloc = sonic_json::SimpleAllocator;
#else
using Alloc = SONIC_DEFAULT_ALLOCATOR;
#endif
using Node = sonic_json::DNode<Alloc>;
using Doc = sonic_json::GenericDocument<Node>;
using sonic_json::StringView;

static const char* kShape[] = {
  /*0*/ "@", /*1*/ "{\"a\":@}", /*2*/ "{\"a\":@,\"b\":@}", /*3*/ "{\"a\":{\"a\":@,\"b\":@},\"b\":@}", /*4*/ "{\"a\":{\"a\":{\"a\":@}}}", /*5*/ "[@,@]",
  /*6*/ "{\"b\":@,\"a\":@}", /*7*/ "{\"c\":@,\"a\":@}", /*8*/ "{\"a\":{\"b\":@,\"c\":@}}", /*9*/ "{\"\\u0061\":@}", /*10*/ "{\"a\":{\"a\":{\"a\":@,\"b\":@}},\"b\":@}", /*11*/ "{}",
  /*12*/ "{\"a\":@,\"b\":{\"a\":@}}", /*13*/ "{\"a\\n\":@,\"a\":@}", /*14*/ "{\"b\":[@,@],\"a\":@}", /*15*/ "[[@,@]]",
  /*16*/ "{\"a\":{\"b\":@},\"b\":@}", /*17*/ "{\"a\":{\"b\":{\"a\":@}},\"b\":@}", /*18*/ "{\"a\":{\"a\":@,\"b\":{\"a\":@}},\"b\":@}",
  /*19*/ "{\"a\":{\"a\":@,\"b\":1},\"b\":2}", /*20*/ "{\"a\":{\"a\":@,\"b\":{\"a\":3}},\"b\":4}",
  /*21*/ "{\"b\":{},\"a\":@}", /*22*/ "{\"b\":[{\"k\":@},[{}]],\"a\":1}", /*23*/ "{\"a\":{\"host\":@,\"port\":\"p\"},\"b\":[\"x\",\"y\"]}", /*24*/ "{\"a\":null,\"b\":@}",
};

// the first slot of a text is one symbolic digit (an integer payload that stays symbolic through every parse and merge);
// every further slot is one of six concrete values picked by a symbolic selector (every kind incl. empty / non-empty object)
static const char* kVals[] = {"1", "\"s\"", "{}", "[]", "{\"a\":2}", "null"};
static size_t build(uint8_t* buf, long shape, const char* name) {
  const char* s = kShape[shape]; size_t o = 0; int slot = 0;
  for (; *s; s++) {
    if (*s != '@') { buf[o++] = (uint8_t)*s; continue; }
    if (slot++ == 0) {
      verif_symbolic(buf + o, 1, name);
      verif_assume(buf[o] >= '0' && buf[o] <= '9');
      o += 1;
    } else {
      const char* v = kVals[verif_concrete(verif_range(0, 5, name))];
      size_t k = strlen(v); memcpy(buf + o, v, k); o += k;
    }
  }
  return o;
}

template <class A, class B>
static bool same(const A& a, const B& b) {
  if (a.IsObject()) {
    if (!b.IsObject() || a.Size() != b.Size()) return false;
    auto ib = b.MemberBegin();
    for (auto ia = a.MemberBegin(); ia != a.MemberEnd(); ++ia, ++ib) {
      StringView x = ia->name.GetStringView(), y = ib->name.GetStringView();
      if (x.size() != y.size() || memcmp(x.data(), y.data(), x.size()) != 0) return false;
      if (!same(ia->value, ib->value)) return false;
    }
    return true;
  }
  if (a.IsArray()) {
    if (!b.IsArray() || a.Size() != b.Size()) return false;
    auto ib = b.Begin();
    for (auto ia = a.Begin(); ia != a.End(); ++ia, ++ib) if (!same(*ia, *ib)) return false;
    return true;
  }
  if (a.IsString()) { if (!b.IsString()) return false; StringView x = a.GetStringView(), y = b.GetStringView(); return x.size() == y.size() && memcmp(x.data(), y.data(), x.size()) == 0; }
  if (a.IsNumber()) {
    if (!b.IsNumber() || a.IsDouble() != b.IsDouble() || a.IsUint64() != b.IsUint64()) return false;
    if (a.IsDouble()) { double d = a.GetDouble(), e = b.GetDouble(); return memcmp(&d, &e, 8) == 0; }
    if (a.IsUint64()) return a.GetUint64() == b.GetUint64();
    return a.GetInt64() == b.GetInt64();
  }
  return a.GetType() == b.GetType();
}

// C20: recursive object merge of the property (source into target), on parsed copies
static void merge(Node& t, const Node& s, Alloc& a) {
  if (t.IsObject() && s.IsObject() && !t.Empty()) {
    for (auto it = s.MemberBegin(); it != s.MemberEnd(); ++it) {
      auto m = t.FindMember(it->name.GetStringView());
      if (m == t.MemberEnd()) { Node v; v.CopyFrom(it->value, a, true); t.AddMember(it->name.GetStringView(), std::move(v), a, true); }
      else merge(m->value, it->value, a);
    }
    return;
  }
  t.CopyFrom(s, a, true);
}

// C19: schema merge of the property (text x into existing e)
static bool nonempty_obj(const Node& n) { return n.IsObject() && !n.Empty(); }
static void smerge(Node& e, const Node& x, Alloc& a) {
  if (nonempty_obj(e) && nonempty_obj(x)) {
    for (auto it = e.MemberBegin(); it != e.MemberEnd(); ++it) {
      auto m = x.FindMember(it->name.GetStringView());
      if (m == x.MemberEnd()) continue;                      // declared key the text omits: unchanged
      smerge(it->value, m->value, a);
    }
    return;                                                 // undeclared keys of the text are ignored
  }
  // existing non-empty object vs an EMPTY object in the text: the statement is silent (no key is provided, nothing is declared
  // on the text side); the library leaves the existing object unchanged and this model follows that reading
  if (nonempty_obj(e) && x.IsObject()) return;
  e.CopyFrom(x, a, true);                                    // otherwise the text's value is taken whole
}

extern "C" int h_merge(void) {
  long which = verif_param(0), se = verif_param(1), sx = verif_param(2), twice = verif_param(3);
  static uint8_t eb[128], xb[128];
  size_t en = build(eb, se, "existing"), xn = build(xb, sx, "text");
  char* et = (char*)malloc(en + 1); memcpy(et, eb, en);
  char* xt = (char*)malloc(xn + 1); memcpy(xt, xb, xn);
  {
    Doc expect; expect.Parse(et, en);
    Doc xdoc; xdoc.Parse(xt, xn);
    if (expect.HasParseError() || xdoc.HasParseError()) verif_fail("harness: skeleton text rejected by the parser");
    if (which == 19) {
      Doc doc; doc.Parse(et, en);
      doc.ParseSchema(xt, xn);
      if (doc.HasParseError()) verif_fail("C19: ParseSchema reports an error on a valid text");
      smerge(expect, xdoc, expect.GetAllocator());
      if (!same(doc, expect)) verif_fail("C19: document after ParseSchema differs from the schema merge the property states");
      if (twice == 3) {
        // document Swap after ParseSchema: the other document dies first; the swapped-in value must stay intact (and nothing may dangle)
        Doc* d2 = new Doc(); d2->Parse(et, en); d2->ParseSchema(xt, xn);
        Doc keep; keep.Swap(*d2);
        delete d2;
        if (!same(keep, expect)) verif_fail("C13: value obtained by Swap after ParseSchema changed when the other document was destroyed");
      } else if (twice == 2) {
        // a second, DIFFERENT and shorter text that touches none of the values built by the first call
        static const char kSecond[] = "{\"zz\":7}";
        Doc x2; x2.Parse(kSecond, sizeof(kSecond) - 1);
        doc.ParseSchema(kSecond, sizeof(kSecond) - 1);
        if (doc.HasParseError()) verif_fail("C19: second ParseSchema (different text) reports an error");
        smerge(expect, x2, expect.GetAllocator());
        if (!same(doc, expect)) verif_fail("C19: values built by an earlier ParseSchema changed when a later, unrelated text was parsed");
      } else if (twice) {
        doc.ParseSchema(xt, xn);
        if (doc.HasParseError()) verif_fail("C19: second ParseSchema reports an error");
        smerge(expect, xdoc, expect.GetAllocator());
        if (!same(doc, expect)) verif_fail("C19: document after a repeated ParseSchema differs from the model");
      }
    } else {
      std::string out = sonic_json::UpdateLazy(StringView(et, en), StringView(xt, xn));
      Doc res; res.Parse(out.data(), out.size());
      if (res.HasParseError()) verif_fail("C20: UpdateLazy result is not valid JSON");
      merge(expect, xdoc, expect.GetAllocator());
      if (!same(res, expect)) verif_fail("C20: UpdateLazy result differs from the recursive merge the property states");
    }
  }
  free(et); free(xt);
#ifdef ALLOC_SIMPLE
  if (verif_live_heap() != 0)
    verif_fail(which == 19 && twice == 1 ? "C13: heap blocks still allocated after a repeated ParseSchema (the text buffer of the earlier call is never released)"
                                    : "C13: heap blocks still allocated after every document was destroyed");
#endif
  return 0;
}
