// Whole-parser harness for C01 (language + coherent failure), C02 (total, memory-safe, no leak, reusable) and
// C03 (value denoted).  Runs the REAL Document::Parse on a text made of concrete skeleton pieces and symbolic bytes.
//   param0 = mode bits: 1=C01 assertions, 2=C02 history (reparse + destroy + heap ledger), 4=C03 value match
//   param1 = family (0 = N unrestricted bytes; 1 = whitespace run at a gap; 2 = long string literal;
//            3 = bracket nest; 4 = wide container)      param2.. = family parameters
#include "sonic/sonic.h"
#include "verif.h"
#include "ref_json.h"
#include <stdlib.h>
#include <string.h>

#ifdef ALLOC_SIMPLE
using Alloc = sonic_json::SimpleAllocator;
#else
using Alloc = SONIC_DEFAULT_ALLOCATOR;
#endif
using Node = sonic_json::DNode<Alloc>;
using Doc = sonic_json::GenericDocument<Node>;
using sonic_json::StringView;

static uint8_t g_tmp[512];

// ---- C03: walk the document through the public accessor API in lock-step with the reference reader.
struct Walker {
  const uint8_t* p; const uint8_t* end; int ok;
  void ws() { while (p < end && ref::is_ws(*p)) p++; }
  void fail(const char* what) { verif_fail(what); ok = 0; }
  void value(const Node& n) {
    ws();
    uint8_t c = *p;
    if (c == '"') {
      p++; size_t len = 0;
      ref::parse_string(p, end, g_tmp, &len);
      if (!n.IsString()) return fail("C03: string expected");
      StringView sv = n.GetStringView();
      if (sv.size() != len) return fail("C03: string length differs");
      int same = 1;
      for (size_t i = 0; i < len; i++) same &= ((uint8_t)sv.data()[i] == g_tmp[i]);
      verif_check(same, "C03: string bytes differ");
      if (n.IsNull() || n.IsBool() || n.IsNumber() || n.IsArray() || n.IsObject()) return fail("C03: string node answers another type test");
      return;
    }
    if (c == '-' || ref::is_dig(c)) {
      ref::Num num; ref::parse_number(p, end, &num);
      if (!n.IsNumber()) return fail("C03: number expected");
      if (num.is_int && num.fits_u64 && !num.neg) {
        if (!n.IsUint64()) return fail("C03: non-negative integer not stored as uint64");
        verif_check(n.GetUint64() == num.mag, "C03: uint64 value differs");
        if (n.IsDouble()) return fail("C03: integer also claims to be double");
      } else if (num.is_int && num.fits_u64 && num.neg && num.mag <= (1ull << 63)) {
        if (num.mag == 0) {
          if (!(n.IsUint64() || n.IsInt64())) return fail("C03: -0 not stored as an integer");
          verif_check(n.GetInt64() == 0, "C03: -0 value differs");
        } else {
          if (!n.IsInt64() || n.IsUint64()) return fail("C03: negative integer not stored as int64");
          verif_check((uint64_t)n.GetInt64() == (uint64_t)0 - num.mag, "C03: int64 value differs");
        }
      } else {
        if (!n.IsDouble()) return fail("C03: non-integer number not stored as double");
        if (n.IsUint64() || n.IsInt64()) return fail("C03: double also claims to be an integer");
      }
      return;
    }
    if (c == 't') { p += 4; if (!n.IsBool() || !n.IsTrue() || !n.GetBool()) fail("C03: true expected"); return; }
    if (c == 'f') { p += 5; if (!n.IsBool() || !n.IsFalse() || n.GetBool()) fail("C03: false expected"); return; }
    if (c == 'n') { p += 4; if (!n.IsNull()) fail("C03: null expected"); return; }
    if (c == '[') {
      p++; ws();
      if (!n.IsArray()) return fail("C03: array expected");
      size_t k = 0; auto it = n.Begin();
      if (*p == ']') { p++; }
      else while (true) {
        if (it == n.End()) return fail("C03: array shorter than text");
        value(*it); if (!ok) return;
        // indexed access must agree with iteration
        if (&n[k] != &*it) return fail("C03: operator[] disagrees with iteration");
        ++it; k++;
        ws();
        if (*p == ',') { p++; continue; }
        p++; break;
      }
      if (it != n.End()) return fail("C03: array longer than text");
      if (n.Size() != k || n.Empty() != (k == 0)) return fail("C03: array Size/Empty wrong");
      return;
    }
    // object
    p++; ws();
    if (!n.IsObject()) return fail("C03: object expected");
    size_t k = 0; auto it = n.MemberBegin();
    if (*p == '}') { p++; }
    else while (true) {
      ws(); p++;
      size_t len = 0; ref::parse_string(p, end, g_tmp, &len);
      if (it == n.MemberEnd()) return fail("C03: object shorter than text");
      if (!it->name.IsString()) return fail("C03: key is not a string");
      StringView sv = it->name.GetStringView();
      if (sv.size() != len) return fail("C03: key length differs");
      int same = 1;
      for (size_t i = 0; i < len; i++) same &= ((uint8_t)sv.data()[i] == g_tmp[i]);
      verif_check(same, "C03: key bytes differ");
      ws(); p++;
      value(it->value); if (!ok) return;
      ++it; k++;
      ws();
      if (*p == ',') { p++; continue; }
      p++; break;
    }
    if (it != n.MemberEnd()) return fail("C03: object longer than text");
    if (n.Size() != k || n.Empty() != (k == 0)) return fail("C03: object Size/Empty wrong");
  }
};

static size_t build_text(uint8_t* buf, size_t cap);

extern "C" int h_parse(void) {
  long mode = verif_param(0);
  static uint8_t scratch[1024];
  size_t n = build_text(scratch, sizeof scratch);
  // the caller's buffer has exactly n bytes
  uint8_t* in = (uint8_t*)malloc(n ? n : 1);
  memcpy(in, scratch, n);
  int rc = ref::recognise(in, n);
  {
    Doc doc;
    doc.Parse((const char*)in, n);
    bool err = doc.HasParseError();
    if (mode & 1) {
      if (err != (rc != ref::R_OK)) verif_fail(err ? "C01: rejects a valid RFC 8259 text" : "C01: accepts an invalid text");
      if (!err) {
        if (doc.GetParseError() != sonic_json::kErrorNone) verif_fail("C01: success with non-zero code");
        if (doc.GetErrorOffset() != n) verif_fail("C01: success but offset != length");
      } else {
        int code = doc.GetParseError();
        if (!doc.IsNull()) verif_fail("C01: failed parse leaves a non-null document");
        if (!(code >= 1 && code <= 6)) verif_fail("C01: failure code is not a parse error code");
        if ((code == sonic_json::kParseErrorInfinity) != (rc == ref::R_INF)) verif_fail("C01: infinity error does not match number overflow");
        if (code >= 4 && code <= 6 && rc == ref::R_INF) verif_fail("C01: string fault code on a text whose first fault is a number");
        if ((rc == ref::R_CTRL || rc == ref::R_ESC || rc == ref::R_UNI) && !(code >= 4 && code <= 6))
          verif_fail("C01: a fault inside a string literal is not reported with a string fault code");
        if (doc.GetErrorOffset() > n) verif_fail("C01: error offset beyond the input length");
      }
    }
    if ((mode & 4) && !err && rc == ref::R_OK) {
      Walker w; w.p = in; w.end = in + n; w.ok = 1;
      w.value(doc);
    }
    if (mode & 2) {
      // history: reuse the same document for a fixed valid text, read it, then destroy
      static const char kValid[] = "{\"k\":[1,\"s\"],\"m\":null}";
      doc.Parse(kValid, sizeof(kValid) - 1);
      if (doc.HasParseError() || !doc.IsObject() || doc.Size() != 2) verif_fail("C02: document not reusable after a previous parse");
      // and once more the symbolic text (reparse over a populated document)
      doc.Parse((const char*)in, n);
      if (doc.HasParseError() != err) verif_fail("C02: reparse of the same text gives a different verdict");
    }
  }
  free(in);
  if (mode & 2) {
    if (verif_live_heap() != 0) verif_fail("C02: heap blocks still allocated after the document was destroyed");
  }
  return rc;
}

// ------------------------------------------------------------------ text families
static size_t put(uint8_t* b, size_t o, const char* s) { size_t k = strlen(s); memcpy(b + o, s, k); return o + k; }

static size_t build_text(uint8_t* buf, size_t cap) {
  long fam = verif_param(1);
  size_t o = 0;
  if (fam == 0) {  // N unrestricted bytes
    size_t n = verif_param(2);
    verif_symbolic(buf, n, "text");
    return n;
  }
  if (fam == 1) {
    // k whitespace bytes (each one of the four, symbolic) inserted at gap position g of an m-byte symbolic text
    size_t m = verif_param(2), k = verif_param(3), g = verif_param(4);
    uint8_t t[16]; verif_symbolic(t, m, "text");
    uint8_t w[256]; verif_symbolic(w, k, "ws");
    for (size_t i = 0; i < k; i++) verif_assume(ref::is_ws(w[i]));
    for (size_t i = 0; i < g; i++) buf[o++] = t[i];
    for (size_t i = 0; i < k; i++) buf[o++] = w[i];
    for (size_t i = g; i < m; i++) buf[o++] = t[i];
    return o;
  }
  if (fam == 2) {
    // '"' + k plain bytes + t unrestricted bytes  (plain = no quote, backslash, control) ; optional leading pad spaces
    size_t k = verif_param(2), t = verif_param(3), lead = verif_param(4);
    for (size_t i = 0; i < lead; i++) buf[o++] = ' ';
    buf[o++] = '"';
    verif_symbolic(buf + o, k, "plain");
    for (size_t i = 0; i < k; i++) verif_assume(buf[o + i] >= 0x20 && buf[o + i] != '"' && buf[o + i] != '\\');
    o += k;
    verif_symbolic(buf + o, t, "tail");
    o += t;
    return o;
  }
  if (fam == 3) {
    // '['^k (or '{"a":' when param5) + s symbolic bytes + ']'^m
    size_t k = verif_param(2), s = verif_param(3), m = verif_param(4); long obj = verif_param(5);
    for (size_t i = 0; i < k; i++) { if (obj && (i & 1)) o = put(buf, o, "{\"a\":"); else buf[o++] = '['; }
    verif_symbolic(buf + o, s, "text"); o += s;
    for (size_t i = 0; i < m; i++) { size_t lvl = k - 1 - i; if (obj && i < k && (lvl & 1)) buf[o++] = '}'; else buf[o++] = ']'; }
    return o;
  }
  if (fam == 4) {
    // container with k scalar children, each one symbolic non-zero digit; array or object
    size_t k = verif_param(2); long obj = verif_param(3); long nest = verif_param(4);
    // children are single non-zero digits; the first, the 16th/17th and the last are symbolic, the others fixed (the copy
    // arithmetic under test depends on the count, and a symbolic '0' would fork every child)
    uint8_t d[64]; uint8_t sy[4]; verif_symbolic(sy, 4, "digits");
    for (size_t i = 0; i < 4; i++) verif_assume(sy[i] >= '1' && sy[i] <= '9');
    for (size_t i = 0; i < k; i++) d[i] = '1' + (i % 9);
    if (k) { d[0] = sy[0]; d[k - 1] = sy[1]; }
    if (k > 16) { d[15] = sy[2]; d[16] = sy[3]; }
    if (nest) buf[o++] = '[';
    buf[o++] = obj ? '{' : '[';
    for (size_t i = 0; i < k; i++) {
      if (i) buf[o++] = ',';
      if (obj) { buf[o++] = '"'; buf[o++] = 'a' + (i % 26); buf[o++] = '"'; buf[o++] = ':'; }
      buf[o++] = d[i];
    }
    buf[o++] = obj ? '}' : ']';
    if (nest) { o = put(buf, o, ",true]"); }
    return o;
  }
  if (fam == 5) {
    // two whitespace gaps in one text:  '[' ws^a V ',' ws^b W ']'  with V, W of 2 symbolic bytes each and symbolic whitespace bytes
    // (the second gap is scanned from the cached non-space bitmap of the block the first gap filled)
    size_t a = verif_param(2), b = verif_param(3);
    uint8_t w[160]; verif_symbolic(w, a + b, "ws");
    for (size_t i = 0; i < a + b; i++) verif_assume(ref::is_ws(w[i]));
    uint8_t v[4]; verif_symbolic(v, 4, "vals");
    buf[o++] = '[';
    for (size_t i = 0; i < a; i++) buf[o++] = w[i];
    buf[o++] = v[0]; buf[o++] = v[1]; buf[o++] = ',';
    for (size_t i = 0; i < b; i++) buf[o++] = w[a + i];
    buf[o++] = v[2]; buf[o++] = v[3]; buf[o++] = ']';
    return o;
  }
  return 0;
}
