// C09: the configuration's Quote kernel against RFC 8259: the output must be a quoted literal that the reference
// un-escaper decodes back to exactly the input bytes, is at most 6n+2 bytes long, stays inside the 6n+32+3 bytes the
// serializer reserves, and does not depend on (or fault on) bytes beyond the string.
//   param0..1 = range of the length n, param2 = max number of bytes needing an escape (n+1 = unrestricted),
//   param3 = 1: every page-end distance 0..70 (0: twelve boundary distances, 2: four), param4 = 1: nothing readable after the string (sanitizer contract)
#include "sonic/internal/arch/simd_quote.h"
#include "verif.h"
#include <stdlib.h>
#include <string.h>

static const size_t kDistQuick[] = {0, 1, 15, 16, 17, 31, 32, 33, 63, 64, 65, 200};

extern "C" int h_quote(void) {
  size_t n = verif_concrete(verif_range(verif_param(0), verif_param(1), "len"));
  size_t maxsp = verif_param(2); long all = verif_param(3), noslack = verif_param(4);
  static const size_t kDistSmall[] = {0, 1, 33, 200}; static const size_t kDistOne[] = {200};
  size_t dist = all == 1 ? verif_concrete(verif_range(0, 71, "dist"))
              : all == 2 ? kDistSmall[verif_concrete(verif_range(0, 3, "dist"))] : all == 3 ? kDistOne[0] : kDistQuick[verif_concrete(verif_range(0, 11, "dist"))];
  if (all == 1 && dist == 71) dist = 200;
  uint8_t* src = (uint8_t*)verif_alloc_page_end(n, dist, noslack ? 0 : 64);
  verif_symbolic(src, n, "str");
  // family: at most `maxsp` bytes may need an escape, at symbolic positions p1 <= p2 (n = "none"); all other bytes are
  // constrained to be plain.  Byte values stay symbolic everywhere.
  size_t p1 = n, p2 = n;
  if (maxsp <= n) {
    if (maxsp >= 1) p1 = verif_concrete(verif_range(0, n, "pos1"));
    if (maxsp >= 2) p2 = verif_concrete(verif_range(p1, n, "pos2"));
    for (size_t i = 0; i < n; i++)
      if (i != p1 && i != p2) verif_assume(src[i] >= 0x20 && src[i] != '"' && src[i] != '\\');
  }
  size_t cap = 6 * n + 32 + 3;
  char* dst = (char*)malloc(cap);
  char* end = sonic_json::internal::Quote((const char*)src, n, dst);
  size_t len = verif_concrete((size_t)(end - dst));
  if (len < 2 || len > 6 * n + 2) verif_fail("C09: output length outside [2, 6n+2]");
  if (dst[0] != '"') verif_fail("C09: output does not start with a quote");
  // reference: walk the output against the input, byte by byte (RFC 8259 section 7)
  const uint8_t* d = (const uint8_t*)dst; size_t o = 1; int ok = 1;
  for (size_t i = 0; i < n; i++) {
    uint8_t c = src[i];
    if (o + 1 >= len) verif_fail("C09: output ends before all input bytes are written");
    if (maxsp <= n ? (i != p1 && i != p2) : (c >= 0x20 && c != '"' && c != '\\')) { ok &= (d[o] == c); o += 1; continue; }
    if (c >= 0x20 && c != '"' && c != '\\') { ok &= (d[o] == c); o += 1; continue; }
    ok &= (d[o] == '\\');
    uint8_t e = d[o + 1];
    if (e == 'u') {
      if (o + 6 >= len) verif_fail("C09: truncated \\u escape in the output");
      unsigned h1 = d[o + 4], h0 = d[o + 5];
      unsigned v1 = (h1 >= '0' && h1 <= '9') ? h1 - '0' : ((h1 | 0x20) >= 'a' && (h1 | 0x20) <= 'f') ? (h1 | 0x20) - 'a' + 10 : 99;
      unsigned v0 = (h0 >= '0' && h0 <= '9') ? h0 - '0' : ((h0 | 0x20) >= 'a' && (h0 | 0x20) <= 'f') ? (h0 | 0x20) - 'a' + 10 : 99;
      ok &= (d[o + 2] == '0') & (d[o + 3] == '0') & (v1 < 16) & (v0 < 16) & (v1 * 16 + v0 == c);
      o += 6;
    } else {
      ok &= ((e == '"') & (c == '"')) | ((e == '\\') & (c == '\\')) | ((e == 'b') & (c == 8)) | ((e == 'f') & (c == 12)) |
            ((e == 'n') & (c == 10)) | ((e == 'r') & (c == 13)) | ((e == 't') & (c == 9));
      o += 2;
    }
  }
  verif_check(ok, "C09: an input byte is not rendered as itself or as its JSON escape");
  if (o + 1 != len || d[o] != '"') verif_fail("C09: output is not terminated by exactly one closing quote");
  verif_check_independent_mem(dst, len, "C09: output bytes");
  free(dst);
  return (int)len;
}
