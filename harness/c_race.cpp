// C17: sufficient conditions for data-race freedom, checked over all symbolic paths of the operations involved:
//   scenario 1 (param0=1): read-only operations on a shared document write no memory that another reader could see;
//   scenario 2 (param0=2): with -DSONIC_LOCKED_ALLOCATOR every access that Malloc/Realloc make to the pool's shared metadata
//                          happens while the allocator's spin lock is held (or only reads fields nobody writes);
//   scenario 3 (param0=3): parsing, mutating and serialising one's own document writes no global object.
#include "sonic/sonic.h"
#include "verif.h"
#include <stdlib.h>
#include <string.h>
#include <thread>

using sonic_json::StringView;

static bool g_first = true;
struct TrackBase {
  void* Malloc(size_t n) {
    void* p = n ? malloc(n) : nullptr;
    // the first block holds SharedData (32 bytes) + the head ChunkHeader (24 bytes); every later block starts with a ChunkHeader
    if (p) verif_track_shared_range(p, g_first ? 56 : 24);
    g_first = false;
    return p;
  }
  void* Realloc(void* o, size_t, size_t n) { return realloc(o, n); }
  static void Free(void* p) { free(p); }
  static constexpr bool kNeedFree = true;
};

static void read_ops(const sonic_json::Document& d, long keysel) {
  static const char* kKeys[] = {"a", "b", "c", "zz", ""};
  StringView k(kKeys[keysel], strlen(kKeys[keysel]));
  volatile long sink = 0;
  sink += d.IsObject() + d.IsArray() + d.IsNull() + d.IsString() + d.IsNumber() + (long)d.Size() + d.Empty();
  for (auto it = d.MemberBegin(); it != d.MemberEnd(); ++it) { sink += (long)it->name.GetStringView().size(); sink += it->value.IsNumber() ? 1 : 0; }
  auto f = d.FindMember(k); sink += (f != d.MemberEnd());
  sink += d.HasMember(k);
  const auto& v = d[k]; sink += v.IsNull();
  const auto& a = d["b"];
  if (a.IsArray()) { for (auto it = a.Begin(); it != a.End(); ++it) sink += it->IsBool() + it->IsString() + it->IsDouble(); sink += a[0].IsTrue(); sink += (long)a.Back().GetType(); }
  const auto& n = d["a"]; if (n.IsInt64()) sink += n.GetInt64() + (long)n.GetUint64();
  const auto* p = d.AtPointer(sonic_json::JsonPointerView({sonic_json::JsonPointerNodeView(StringView("c", 1)), sonic_json::JsonPointerNodeView(StringView("d", 1))})); sink += p && p->IsNull();
  const auto* p2 = d.AtPointer(sonic_json::JsonPointerView({sonic_json::JsonPointerNodeView(StringView("b", 1)), sonic_json::JsonPointerNodeView(7)})); sink += (p2 == nullptr);
  sonic_json::WriteBuffer wb;            // the reader's own buffer
  sink += d.Serialize(wb);
  sink += (long)wb.Size();
}

extern "C" int h_race(void) {
  long scen = verif_param(0);
  if (scen == 1) {
    static const char kText[] = "{\"a\":1,\"b\":[true,\"s\",2.5],\"c\":{\"d\":null}}";
    sonic_json::Document d; d.Parse(kText, sizeof(kText) - 1);
    if (d.HasParseError()) verif_fail("harness: fixed text rejected");
    if (verif_param(1)) d.CreateMap(d.GetAllocator());
    long ks = (long)verif_concrete(verif_range(0, 4, "key"));
    if (verif_is_replay()) {
      // native replay of a solver counterexample: two real threads run the read-only operations concurrently (built with -fsanitize=thread)
      std::thread t1([&] { for (int i = 0; i < 2000; i++) read_ops(d, ks); });
      std::thread t2([&] { for (int i = 0; i < 2000; i++) read_ops(d, ks); });
      t1.join(); t2.join();
      return 1;
    }
    read_ops(d, ks);                      // warm-up: one-time initialisation of function-local statics happens here (guarded by the C++ runtime)
    verif_track_begin(1);
    read_ops(d, ks);
    verif_track_end();
    return 1;
  }
  if (scen == 2) {
    using Pool = sonic_json::MemoryPoolAllocator<TrackBase, sonic_json::SimpleChunkPolicy>;
    Pool pool(64);
    size_t s0 = verif_range(0, 80, "prefill");
    void* p0 = pool.Malloc(s0);            // arbitrary reachable fill state of the head chunk (untracked)
    verif_track_mode(2);
    size_t steps = verif_param(1);
    if (verif_is_replay()) {
      // native replay: two real threads allocate from the one pool concurrently (built with -fsanitize=thread)
      auto work = [&] { void* l = nullptr; size_t ln = 0; for (int i = 0; i < 3000; i++) { size_t n = 1 + (i * 7) % 90; if (i & 1) { l = pool.Realloc(l, ln, n); } else { l = pool.Malloc(n); } ln = n; if (l) memset(l, 1, n); } };
      std::thread t1(work), t2(work); t1.join(); t2.join();
      return 2;
    }
    void* last = p0; size_t lastn = s0;
    for (size_t i = 0; i < steps; i++) {
      size_t op = verif_concrete(verif_range(0, 1, "op"));
      size_t n = verif_range(0, 100, "size");
      if (op == 0) { last = pool.Malloc(n); lastn = n; }
      else { last = pool.Realloc(last, lastn, n); lastn = n; }
    }
    verif_track_end();
    return 2;
  }
  if (scen == 3) {
    // numbers chosen to take every text->double path: exact fast path, Eisel-Lemire, and the big-decimal fallback (subnormal, >19 digits)
    static const char kText[] = "{\"a\":1,\"b\":[true,\"s\",2.5e3,4.9e-324,1.7976931348623157e308,0.1234567890123456789012345,1e-400],\"c\":{\"d\":null}}";
    auto body = [&]() {
      sonic_json::Document d; d.Parse(kText, sizeof(kText) - 1);
      auto& a = d.GetAllocator();
      sonic_json::Node v; v.SetString(StringView("val", 3), a);
      d.AddMember("k", std::move(v), a);
      d["b"].PushBack(sonic_json::Node(7.5), a);
      sonic_json::WriteBuffer wb; d.Serialize(wb);
    };
    if (verif_is_replay()) {
      std::thread t1([&] { for (int i = 0; i < 500; i++) body(); });
      std::thread t2([&] { for (int i = 0; i < 500; i++) body(); });
      t1.join(); t2.join();
      return 3;
    }
    for (int round = 0; round < 2; round++) {
      if (round == 1) verif_track_begin(3);
      sonic_json::Document d; d.Parse(kText, sizeof(kText) - 1);
      auto& a = d.GetAllocator();
      sonic_json::Node v; v.SetString(StringView("val", 3), a);
      d.AddMember("k", std::move(v), a);
      d["b"].PushBack(sonic_json::Node(7.5), a);
      d.RemoveMember("a");
      d.CreateMap(a);
      sonic_json::Node c; c.CopyFrom(d, a, true);
      sonic_json::WriteBuffer wb; d.Serialize(wb);
      sonic_json::Document e; e.Parse(wb.ToString(), wb.Size());
      if (e.HasParseError() || !(e == c)) verif_fail("harness: round trip failed");
      static const char kBad[] = "{\"a\":[1,";
      sonic_json::Document b; b.Parse(kBad, sizeof(kBad) - 1);
      if (round == 1) verif_track_end();
    }
    return 3;
  }
  return 0;
}
