// C10 / C11: on-demand extraction on the caller's UNPADDED buffer.
//   param0 = mode bits: 1 = C11 (any bytes: stays inside the input, coherent result), 2 = C10 (valid text: agrees with full parse + pointer lookup)
//   param1 = path index (table below), param2 = family (0 = N unrestricted bytes; 1 = filler family), param3.. = family parameters
#include "sonic/sonic.h"
#include "verif.h"
#include "ref_json.h"
#include <stdlib.h>
#include <string.h>

using Doc = sonic_json::Document;
using sonic_json::StringView;
using sonic_json::JsonPointerView;
using sonic_json::JsonPointerNodeView;

static void make_path(long idx, JsonPointerView& p) {
  switch (idx) {
    case 0: break;                                                   // whole document
    case 1: p /= JsonPointerNodeView(StringView("a")); break;
    case 2: p /= JsonPointerNodeView(0); break;
    case 3: p /= JsonPointerNodeView(1); break;
    case 4: p /= JsonPointerNodeView(StringView("a")); p /= JsonPointerNodeView(StringView("b")); break;
    case 5: p /= JsonPointerNodeView(StringView("a")); p /= JsonPointerNodeView(0); break;
    case 6: p /= JsonPointerNodeView(0); p /= JsonPointerNodeView(StringView("a")); break;
    case 7: p /= JsonPointerNodeView(1); p /= JsonPointerNodeView(0); break;
    case 8: p /= JsonPointerNodeView(-1); break;
    case 9: p /= JsonPointerNodeView(StringView("")); break;
    case 10: p /= JsonPointerNodeView(2); break;
    case 11: p /= JsonPointerNodeView(StringView("b")); break;
    case 12: p /= JsonPointerNodeView(0); p /= JsonPointerNodeView(1); break;
    case 13: p /= JsonPointerNodeView(StringView("a")); p /= JsonPointerNodeView(1); break;
  }
}

static size_t put(uint8_t* b, size_t o, const char* s) { size_t k = strlen(s); memcpy(b + o, s, k); return o + k; }

static size_t build(uint8_t* buf) {
  long fam = verif_param(2); size_t o = 0;
  if (fam == 0) { size_t n = verif_param(3); verif_symbolic(buf, n, "text"); return n; }
  if (fam == 1) {
    // skeleton(param3) with a filler of param4 bytes (kind param5: 0 spaces, 1 plain string content) and param6 symbolic tail bytes
    long sk = verif_param(3); size_t fill = verif_param(4); long kind = verif_param(5); size_t tail = verif_param(6);
    const char* pre = sk == 0 ? "" : sk == 1 ? "[" : sk == 2 ? "{\"a\":" : sk == 3 ? "[\"" : sk == 4 ? "{\"b\":\"" : "{\"a\"   :";   // 5: whitespace run, token, then the filler run
    o = put(buf, o, pre);
    if (kind == 0) { for (size_t i = 0; i < fill; i++) buf[o++] = ' '; }
    else if (kind == 1) { if (sk < 3) buf[o++] = '"'; for (size_t i = 0; i < fill; i++) buf[o++] = "ab[{]},:"[i & 7]; }
    else if (kind == 2) {   // string content whose last two bytes are an escaped quote: the backslash lands on byte fill-2 of the string
      if (sk < 3) buf[o++] = '"';
      for (size_t i = 0; i + 2 < fill; i++) buf[o++] = "ab[{]},:"[i & 7];
      buf[o++] = '\\'; buf[o++] = '"';
    } else if (kind == 4) { // as kind 2, followed by 20 more plain bytes inside the same string (a full vector block follows the escape)
      if (sk < 3) buf[o++] = '"';
      for (size_t i = 0; i + 2 < fill; i++) buf[o++] = "ab[{]},:"[i & 7];
      buf[o++] = '\\'; buf[o++] = '"';
      for (size_t i = 0; i < 20; i++) buf[o++] = 'q';
    } else {                // kind 3: two whitespace runs: 3 spaces, a colon-free token boundary, then fill spaces (cached-bitmap path of skip_space_safe)
      buf[o++] = ' '; buf[o++] = ' '; buf[o++] = ' ';
      if (sk == 2) { /* {"a":   <fill spaces> */ } 
      for (size_t i = 0; i < fill; i++) buf[o++] = ' ';
    }
    verif_symbolic(buf + o, tail, "tail"); o += tail;
    return o;
  }
  if (fam == 2) {
    // {"a":V,"b":W} / [V,W,X] with 2-byte symbolic values, optional escaped spelling of the key a
    long arr = verif_param(3); long esc = verif_param(4); long one = verif_param(5);   // param5 = 1: one-byte values
    uint8_t v[6]; verif_symbolic(v, 6, "vals");
    if (one) { verif_assume(v[1] == ' ' && v[3] == ' ' && v[5] == ' '); }
    size_t padlen = verif_param(6);   // extra trailing member with a long plain string (keys are then followed by >= 32 bytes of text)
    if (arr) { buf[o++] = '['; buf[o++] = v[0]; buf[o++] = v[1]; buf[o++] = ','; buf[o++] = v[2]; buf[o++] = v[3]; buf[o++] = ','; buf[o++] = v[4]; buf[o++] = v[5]; buf[o++] = ']'; }
    else {
      o = put(buf, o, esc ? "{\"\\u0061\":" : "{\"a\":"); buf[o++] = v[0]; buf[o++] = v[1];
      o = put(buf, o, ",\"b\":"); buf[o++] = v[2]; buf[o++] = v[3];
      o = put(buf, o, ",\"a\":"); buf[o++] = v[4]; buf[o++] = v[5];
      if (padlen) { o = put(buf, o, ",\"zz\":\""); for (size_t i = 0; i < padlen; i++) buf[o++] = 'p'; buf[o++] = '"'; }
      buf[o++] = '}';
    }
    return o;
  }
  return 0;
}

// ordered structural equality (members in textual order, duplicates kept, number kind and 8 payload bytes)
template <class A, class B>
static bool same(const A& a, const B& b) {
  if (a.GetType() != b.GetType() && !(a.IsString() && b.IsString())) return false;
  if (a.IsObject()) {
    if (a.Size() != b.Size()) return false;
    auto ib = b.MemberBegin();
    for (auto ia = a.MemberBegin(); ia != a.MemberEnd(); ++ia, ++ib) {
      StringView x = ia->name.GetStringView(), y = ib->name.GetStringView();
      if (x.size() != y.size() || memcmp(x.data(), y.data(), x.size()) != 0) return false;
      if (!same(ia->value, ib->value)) return false;
    }
    return true;
  }
  if (a.IsArray()) {
    if (a.Size() != b.Size()) return false;
    auto ib = b.Begin();
    for (auto ia = a.Begin(); ia != a.End(); ++ia, ++ib) if (!same(*ia, *ib)) return false;
    return true;
  }
  if (a.IsString()) { StringView x = a.GetStringView(), y = b.GetStringView(); return x.size() == y.size() && memcmp(x.data(), y.data(), x.size()) == 0; }
  if (a.IsNumber()) {
    if (a.IsDouble()) { double d = a.GetDouble(), e = b.GetDouble(); return memcmp(&d, &e, 8) == 0; }
    if (a.IsUint64()) return a.GetUint64() == b.GetUint64();
    return a.GetInt64() == b.GetInt64();
  }
  return true;
}

extern "C" int h_ondemand(void) {
  long mode = verif_param(0);
  static uint8_t scratch[512];
  size_t n = build(scratch);
  uint8_t* in = (uint8_t*)malloc(n ? n : 1);      // exactly the caller's bytes: no sentinel, no padding
  memcpy(in, scratch, n);
  if (mode & 2) verif_assume(ref::recognise(in, n) == ref::R_OK);
  int rc = 0;
  long plo = verif_param(1), phi = plo;
  if (plo < 0) { plo = 0; phi = 13; }            // param1 = -1: all fourteen paths, one after the other, on the same text
  Doc full;
  if (mode & 2) {
    full.Parse((const char*)in, n);
    if (full.HasParseError()) verif_fail("C10: reference-valid text rejected by the full parser");
  }
  for (long pi = plo; pi <= phi; pi++) {
    JsonPointerView path; make_path(pi, path);
    StringView target("zz", 2);
    sonic_json::ParseResult res = sonic_json::GetOnDemand(StringView((const char*)in, n), path, target);
    if (res.Error() == sonic_json::kErrorNone) {
      const uint8_t* tb = (const uint8_t*)target.data(); size_t tl = target.size();
      if (tb < in || tb + tl > in + n) verif_fail("C11: returned slice is not a sub-range of the input");
      if (res.Offset() > n) verif_fail("C11: reported offset beyond the input length");
      rc = 1;
    } else {
      if (target.size() != 0) verif_fail("C10: error returned but the slice is not empty");
    }
    if (mode & 2) {
      const Doc::NodeType* node = full.AtPointer(path);
      if ((node != nullptr) != (res.Error() == sonic_json::kErrorNone))
        verif_fail(node ? "C10: path resolves in the document but on-demand lookup fails" : "C10: on-demand lookup succeeds although the path does not resolve");
      Doc od; od.ParseOnDemand((const char*)in, n, path);
      if (od.HasParseError() != (node == nullptr)) verif_fail("C10: ParseOnDemand verdict differs from full parse + pointer lookup");
      if (node) {
        Doc sl; sl.Parse(target.data(), target.size());
        if (sl.HasParseError()) verif_fail("C10: returned slice does not parse");
        if (!same(sl, *node)) verif_fail("C10: slice parses to a value different from the one the document holds");
        if (!same(od, *node)) verif_fail("C10: ParseOnDemand value differs from the one the document holds");
      }
    }
  }
  free(in);
  return rc;
}
