// C04 (front end + composed back ends): Document::Parse on number texts built from a concrete template with a few
// symbolic digits.  The engine forks over every feasible digit value, so each path is a fully concrete execution of the
// REAL parseNumber + fast path / Eisel-Lemire / AtofNative chain; the result is compared with an exact oracle
// (engine: correctly rounded decimal->double by exact rational arithmetic; replay: glibc strtod).
//   param0 = template index
#include "sonic/sonic.h"
#include "verif.h"
#include "ref_json.h"
#include <stdlib.h>
#include <string.h>

extern "C" uint64_t verif_oracle_text2double(const char* s, size_t n);   // bits of the nearest-even double; 0x7ff0.. if it overflows

static const char* kTmpl[] = {
  /*0*/ "#e30#", /*1*/ "-#.#e30#", /*2*/ "1797693134862315#e29#", /*3*/ "17976931348623158e29#", /*4*/ "#e-32#", /*5*/ "4.94065645841246#e-324",
  /*6*/ "2.4703282292062327208051355972539#e-324", /*7*/ "922337203685477580#", /*8*/ "-922337203685477580#", /*9*/ "1844674407370955161#",
  /*10*/ "1844674407370955161##", /*11*/ "#.#e2#", /*12*/ "#.#e-2#", /*13*/ "123456789012345678#e-#", /*14*/ "1234567890123456789012#e#",
  /*15*/ "0.000000000000000000000000000000#e-30#", /*16*/ "-0.#e-#", /*17*/ "0e#", /*18*/ "-0.0e-#", /*19*/ "9007199254740993#", /*20*/ "900719925474099#.5",
  /*21*/ "1.00000000000000011102230246251565404236316680908203125#", /*22*/ "8.98846567431157#e307", /*23*/ "#.#E+#", /*24*/ "1e#0#", /*25*/ "72057594037927935E#",
  /*26*/ "9.3326361850321887e-30#", /*27*/ "1.8e30#", /*28*/ "#00000000000000000000000e-#", /*29*/ "0.3e#",
  /*30: inside an array*/ "1.#e30#", /*31: as a member value*/ "-#e30#", /*32*/ "2.5e-#",
  /*33*/ "0.0000000000000000000000#", /*34*/ "-0.000000000000000000000000000000000000000#", /*35*/ "0.00000000000000000000000#0",
  /* 36, 37: exact halfway points between adjacent subnormals written with all their ~750 significant digits; the last digit and one
     appended digit are symbolic: exactly-tie (round to even), just below and just above */
  "0.000000000000000000000000000000000000000000000000000000000000000000000000000000000000000000000000000000000000000000000000000000000000000000000000000000000000000000000000000000000000000000000000000000000000000000000000000000000000000000000000000000000000000000000000000000000000000000000000000000000000000000000000000000000007410984687618698162648531893023320585475897039214871466383785237510132609053131277979497545424539885696948470431685765963899850655339096945981621940161728171894510697854671067917687257517734731555330779540854980960845750095811137303474765809687100959097544227100475730780971111893578483867565399878350301522805593404659373979179073872386829939581848166016912201945649993128979841136206248449867871357218035220901702390328579173252022052897402080290685402160661237554998340267130003581248647904138574340187552090159017259254714629617513415977493871857473787096164563890871811984127167305601704549300470526959016576377688490826798697257336652176556794107250876433756084600398490497214911746308553955635418864151316847843631308023759629577398300170898437##",
  "0.000000000000000000000000000000000000000000000000000000000000000000000000000000000000000000000000000000000000000000000000000000000000000000000000000000000000000000000000000000000000000000000000000000000000000000000000000000000000000000000000000000000000000000000000000000000000000000000000000000000000000000000000000000000012351641146031163604414219821705534309126495065358119110639642062516887681755218796632495909040899809494914117386142943273166417758898494909969369900269546953157517829757785113196145429196224552592217965901424968268076250159685228839124609682811834931829240378500792884634951853155964139779275666463917169204675989007765623298631789787311383232636413610028187003242749988548299735227010414083113118928696725368169503983880965288753370088162336800484475670267768729258330567111883339302081079840230957233645920150265028765424524382695855693295823119762456311826940939818119686640211945509336174248834117544931694293962814151377997828762227753627594656845418127389593474333997484162024852910514256592725698106918861413072718846706266049295663833618164062##",
};
static const char* kPre[] = {"[", "{\"a\":", " [ 7 , "};
static const char* kSuf[] = {"]", "}", " ] "};

extern "C" int h_numtext(void) {
  long t = verif_param(0);
  // 38, 39: generated: every fraction digit-run length 1..20 after 1 / 4 integer digits (the vector digit reader has one case per
  // run length 1..16); first integer digit and last fraction digit symbolic
  static char gen[64];
  if (t >= 38) {
    size_t k = verif_concrete(verif_range(1, 20, "fraclen")), g = 0;
    gen[g++] = '#'; if (t == 39) { gen[g++] = '2'; gen[g++] = '3'; gen[g++] = '4'; }
    gen[g++] = '.';
    for (size_t i = 0; i + 1 < k; i++) gen[g++] = "12345678909876543210"[i];
    gen[g++] = '#'; gen[g] = 0;
  }
  const char* s = t >= 38 ? gen : kTmpl[t];
  static char buf[1400]; size_t n = 0;
  for (; *s; s++) {
    if (*s == '#') buf[n++] = (char)('0' + verif_concrete(verif_range(0, 9, "digit")));
    else buf[n++] = *s;
  }
  char* in = (char*)malloc(n); memcpy(in, buf, n);
  const uint8_t* p = (const uint8_t*)in; ref::Num num;
  if (ref::parse_number(p, p + n, &num) != ref::R_OK || p != (const uint8_t*)in + n) { free(in); return 0; }   // template instance is not a number
  uint64_t want = verif_oracle_text2double(in, n);
  bool inf = (want & 0x7fffffffffffffffull) == 0x7ff0000000000000ull;
  if (t >= 30 && t <= 32) {
    // the same number nested in a container: rejected with the infinity error, or stored as the same double
    const char* pre = kPre[t - 30]; const char* suf = kSuf[t - 30];
    size_t a = strlen(pre), b = strlen(suf);
    char* w = (char*)malloc(a + n + b); memcpy(w, pre, a); memcpy(w + a, in, n); memcpy(w + a + n, suf, b);
    {
      sonic_json::Document doc; doc.Parse(w, a + n + b);
      if (inf) {
        if (!doc.HasParseError() || doc.GetParseError() != sonic_json::kParseErrorInfinity) verif_fail("C04: a nested value that rounds to infinity is not rejected with the infinity error");
      } else {
        if (doc.HasParseError()) verif_fail("C04: finite nested number rejected");
        const sonic_json::Node& v = doc.IsArray() ? doc[doc.Size() - 1] : doc.MemberBegin()->value;
        if (!v.IsDouble()) verif_fail("C04: nested non-integer number is not stored as double");
        double d = v.GetDouble(); uint64_t got; memcpy(&got, &d, 8);
        if (got != want) verif_fail("C04: nested double is not the correctly rounded value of the text");
      }
    }
    free(w); free(in);
    return 1;
  }
  {
    sonic_json::Document doc; doc.Parse(in, n);
    if (num.is_int && num.fits_u64 && !num.neg) {
      if (doc.HasParseError() || !doc.IsUint64() || doc.GetUint64() != num.mag) verif_fail("C04: non-negative integer that fits uint64 is not stored exactly as uint64");
    } else if (num.is_int && num.fits_u64 && num.neg && num.mag <= (1ull << 63) && num.mag != 0) {
      if (doc.HasParseError() || !doc.IsInt64() || doc.IsUint64() || (uint64_t)doc.GetInt64() != (uint64_t)0 - num.mag) verif_fail("C04: negative integer that fits int64 is not stored exactly as int64");
    } else if (num.is_int && num.mag == 0 && num.fits_u64) {
      if (doc.HasParseError() || !doc.IsNumber()) verif_fail("C04: -0 rejected");
    } else if (inf) {
      if (!doc.HasParseError() || doc.GetParseError() != sonic_json::kParseErrorInfinity) verif_fail("C04: a value that rounds to infinity is not rejected with the infinity error");
    } else {
      if (doc.HasParseError()) verif_fail("C04: finite number rejected");
      if (!doc.IsDouble()) verif_fail("C04: non-integer (or out-of-range integer) number is not stored as double");
      double d = doc.GetDouble(); uint64_t got; memcpy(&got, &d, 8);
      if (got != want) verif_fail("C04: stored double is not the correctly rounded value of the text");
    }
  }
  free(in);
  return 1;
}
