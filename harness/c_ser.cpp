// C06 (remaining clauses): non-finite doubles make Serialize return the infinity error and Dump return "" whatever the
// position of the node and the state of the write buffer; strings of arbitrary bytes (as value and as key) serialise to text
// that parses back to the same bytes and re-serialises identically.
//   param0 = 0: non-finite double (param1 = 1: write buffer reused after a successful serialisation)
//   param0 = 2: write buffer constructed with every initial capacity 0..param1 (forked), optionally (param2 = 1) reused for a
//               second document after Clear(): each of 18 document shapes (scalar roots, empty containers, empty container as
//               last child, nesting, strings of 0/3/38 bytes, escapes, longest integers) must serialise to exactly its compact
//               text; the engine's exact-object memory model decides that no PushUnsafe / vector store leaves the buffer
//   param0 = 3: Serialize always reserves 18*Size()+64 bytes first, so the growth contracts (Grow(33) numbers, Grow(8) literals,
//               Grow(3)/Grow(2) brackets, 6n+35 strings) only matter once the text outgrows that estimate: text
//               "[[" + a x "[]," + b x "null," + T + "]]" with a in 0..param1, b in 0..4 (forked) puts each of 12 element kinds T at
//               every distance from the end of the 82-byte (then doubled) buffer; exact text and every store inside the object
//   param0 = 1: string of param1 bytes with at most one byte needing an escape at a symbolic position, all byte values symbolic
#include "sonic/sonic.h"
#include "verif.h"
#include "ref_json.h"
#include <stdlib.h>
#include <string.h>

using sonic_json::StringView;
using Doc = sonic_json::Document;

extern "C" int h_ser(void) {
  long mode = verif_param(0);
  if (mode == 0) {
    uint64_t bits = verif_range(0, UINT64_MAX, "bits");
    verif_assume(((bits >> 52) & 0x7ff) == 0x7ff);              // +-inf and every NaN
    double d; memcpy(&d, &bits, 8);
    Doc doc; auto& a = doc.GetAllocator();
    size_t where = verif_concrete(verif_range(0, 3, "where"));
    if (where == 0) doc.SetDouble(d);
    else if (where == 1) { doc.SetArray(); doc.PushBack(sonic_json::Node(1), a); doc.PushBack(sonic_json::Node(d), a); doc.PushBack(sonic_json::Node("s"), a); }
    else if (where == 2) { doc.SetObject(); doc.AddMember("a", sonic_json::Node(d), a); doc.AddMember("b", sonic_json::Node(2), a); }
    else { doc.SetObject(); sonic_json::Node in; in.SetArray(); in.PushBack(sonic_json::Node(d), a); doc.AddMember("k", std::move(in), a); }
    sonic_json::WriteBuffer wb;
    if (verif_param(1)) { Doc ok; ok.Parse("[1,2,3]", 7); if (ok.Serialize(wb) != sonic_json::kErrorNone) verif_fail("harness: valid serialisation failed"); wb.Clear(); }
    sonic_json::SonicError err = doc.Serialize(wb);
    if (err != sonic_json::kSerErrorInfinity) verif_fail("C06: a document holding a non-finite double does not serialise to the infinity error");
    std::string s = doc.Dump();
    if (s.size() != 0) verif_fail("C06: Dump of a document holding a non-finite double is not empty");
    return 1;
  }
  if (mode == 2) {
    static const char* const T[] = {"true", "null", "false", "0", "-9223372036854775808", "18446744073709551615", "1.5", "\"\"", "\"abc\"",
      "[]", "{}", "[[],{}]", "{\"a\":[],\"b\":{}}", "[1,[2,[3,[]]]]", "{\"k\":\"\\n\\\\\"}", "\"xxxxxxxxxxxxxxxxxxxxxxxxxxxxxxxxxxxxxx\"",
      "[true,false,null]", "{\"\":{\"\":[\"\"]}}"};
    const size_t NT = sizeof(T) / sizeof(T[0]);
    size_t cap = verif_concrete(verif_range(0, verif_param(1), "cap"));
    size_t i = verif_concrete(verif_range(0, NT - 1, "doc"));
    sonic_json::WriteBuffer wb(cap);
    {
      Doc d; d.Parse(T[i], strlen(T[i]));
      if (d.HasParseError()) verif_fail("harness: template does not parse");
      if (d.Serialize(wb) != sonic_json::kErrorNone) verif_fail("C06: Serialize failed with a small initial write-buffer capacity");
      if (wb.Size() != strlen(T[i]) || memcmp(wb.ToString(), T[i], strlen(T[i]) + 1) != 0) verif_fail("C06: wrong text with a small initial write-buffer capacity");
    }
    if (verif_param(2)) {
      size_t j = verif_concrete(verif_range(0, NT - 1, "doc2"));
      wb.Clear();
      Doc d; d.Parse(T[j], strlen(T[j]));
      if (d.Serialize(wb) != sonic_json::kErrorNone) verif_fail("C06: Serialize failed into a reused small write buffer");
      if (wb.Size() != strlen(T[j]) || memcmp(wb.ToString(), T[j], strlen(T[j]) + 1) != 0) verif_fail("C06: wrong text from a reused small write buffer");
    }
    return 3;
  }
  if (mode == 3) {
    static const char* const T[] = {"-9223372036854775808", "18446744073709551615", "-2.2250738585072014e-308", "true", "false", "null", "[]", "{}",
      "\"\"", "\"abcdefgh\"", "[[1]]", "{\"k\":{}}"};
    const size_t NT = sizeof(T) / sizeof(T[0]);
    size_t a = verif_concrete(verif_range(0, verif_param(1), "a"));
    size_t b = verif_concrete(verif_range(0, 4, "b"));
    size_t i = verif_concrete(verif_range(0, NT - 1, "elem"));
    static char text[1024]; size_t len = 0;
    text[len++] = '['; text[len++] = '[';
    for (size_t k = 0; k < a; k++) { memcpy(text + len, "[],", 3); len += 3; }
    for (size_t k = 0; k < b; k++) { memcpy(text + len, "null,", 5); len += 5; }
    memcpy(text + len, T[i], strlen(T[i])); len += strlen(T[i]);
    text[len++] = ']'; text[len++] = ']'; text[len] = 0;
    Doc d; d.Parse(text, len);
    if (d.HasParseError()) verif_fail("harness: template does not parse");
    sonic_json::WriteBuffer wb(verif_param(2));
    if (d.Serialize(wb) != sonic_json::kErrorNone) verif_fail("C06: Serialize failed on a text that outgrows the size estimate");
    if (wb.Size() != len || memcmp(wb.ToString(), text, len + 1) != 0) verif_fail("C06: wrong text when the output outgrows the size estimate");
    return 4;
  }
  size_t n = verif_param(1);
  static uint8_t str[128];
  verif_symbolic(str, n, "str");
  size_t p1 = verif_concrete(verif_range(0, n, "pos"));
  for (size_t i = 0; i < n; i++) if (i != p1) verif_assume(str[i] >= 0x20 && str[i] != '"' && str[i] != '\\');
  Doc doc; auto& a = doc.GetAllocator();
  doc.SetObject();
  sonic_json::Node v; v.SetString(StringView((const char*)str, n), a);
  doc.AddMember(StringView((const char*)str, n), std::move(v), a, true);          // same bytes as key and as value
  sonic_json::WriteBuffer wb;
  if (doc.Serialize(wb) != sonic_json::kErrorNone) verif_fail("C06: Serialize failed on a document of strings");
  size_t len = wb.Size();
  char* text = (char*)malloc(len + 1); memcpy(text, wb.ToString(), len);
  if (ref::recognise((const uint8_t*)text, len) != ref::R_OK) verif_fail("C06: serialised text is not accepted by the RFC 8259 reference recogniser");
  Doc back; back.Parse(text, len);
  if (back.HasParseError() || !back.IsObject() || back.Size() != 1) verif_fail("C06: serialised text does not parse back to a one-member object");
  StringView k = back.MemberBegin()->name.GetStringView(), w = back.MemberBegin()->value.GetStringView();
  if (k.size() != n || w.size() != n) verif_fail("C06: string length changed in the round trip");
  int same = 1;
  for (size_t i = 0; i < n; i++) same &= ((uint8_t)k.data()[i] == str[i]) & ((uint8_t)w.data()[i] == str[i]);
  verif_check(same, "C06: string bytes changed in the round trip");
  sonic_json::WriteBuffer wb2; back.Serialize(wb2);
  if (wb2.Size() != len || memcmp(wb2.ToString(), text, len) != 0) verif_fail("C06: re-serialisation is not byte-identical");
  free(text);
  return 2;
}
