// C07 (formatting, end to end): F64toa on doubles whose 64-bit pattern is a concrete template with a few symbolic hex
// digits.  The engine forks over every digit value (each path is a concrete execution of the REAL F64toa incl. the integer
// fast path, fixed / scientific formatting and trailing-zero trimming) and an exact oracle checks the text.
//   param0 = template index
#include "sonic/internal/ftoa.h"
#include "verif.h"
#include <stdlib.h>
#include <string.h>

extern "C" int verif_oracle_ftoa(uint64_t bits, const char* txt, size_t n);  // 0 = ok; else a fault code (see lib/llsym_ext.py)

static const char* kTmpl[] = {
  /*0*/ "3ff00000000000##", /*1*/ "000000000000000#", /*2*/ "00000000000###00", /*3*/ "7fefffffffffff##", /*4*/ "0010000000000###",
  /*5*/ "43##000000000000", /*6*/ "4340000000000###", /*7*/ "433fffffffffff##", /*8*/ "3f##000000000000", /*9*/ "3eb0c6f7a0b5ed##",
  /*10*/ "40##800000000000", /*11*/ "4###000000000000", /*12*/ "3###000000000000", /*13*/ "3ff199999999999#", /*14*/ "444b1ae4d6e2ef5#",
  /*15*/ "3fb999999999999#", /*16*/ "c0##400000000000", /*17*/ "8000000000000###", /*18*/ "3ff##00000000000", /*19*/ "41dfffffffc000##",
  /*20*/ "36a0000000000000", /*21*/ "47efffffe0000000", /*22*/ "3f50624dd2f1a9f#", /*23*/ "4415af1d78b58c4#", /*24*/ "0###ffffffffffff", /*25*/ "7###000000000001",
  /*26*/ "3e7ad7f29abcaf4#", /*27*/ "3eb0c6f7a0b5ed8d", /*28*/ "4202a05f20000###", /*29*/ "3cb0000000000###", /*30*/ "5##fffffffffffff", /*31*/ "2##0000000000001",
  /* 32..39: every power of two (fraction 0), all 2046 binary exponents and the subnormal minimum side */
  "0##0000000000000", "1##0000000000000", "2##0000000000000", "3##0000000000000", "4##0000000000000", "5##0000000000000", "6##0000000000000", "7##0000000000000",
  /* 40..41: negative powers of two, smallest subnormals */ "b##0000000000000", "00000000000000##",
};

extern "C" int h_ftoatext(void) {
  long t = verif_param(0);
  const char* s = kTmpl[t]; uint64_t bits = 0;
  for (; *s; s++) {
    unsigned d = *s == '#' ? (unsigned)verif_concrete(verif_range(0, 15, "nibble")) : (*s <= '9' ? *s - '0' : *s - 'a' + 10);
    bits = (bits << 4) | d;
  }
  if (((bits >> 52) & 0x7ff) == 0x7ff) return 0;          // not finite: serializer's concern (C06)
  double d; memcpy(&d, &bits, 8);
  char* buf = (char*)malloc(33);                          // what the serializer reserves
  int n = sonic_json::internal::F64toa(buf, d);
  if (n <= 0 || n > 32) verif_fail("C07: output length outside 1..32");
  int rc = verif_oracle_ftoa(bits, buf, (size_t)n);
  if (rc == 1) verif_fail("C07: output is not a JSON number with a fraction or an exponent");
  if (rc == 2) verif_fail("C07: output does not read back to the same double (or loses the sign of -0.0)");
  if (rc == 3) verif_fail("C07: output is not the shortest decimal that reads back");
  if (rc == 4) verif_fail("C07: output is not the closest among the shortest decimals");
  free(buf);
  return n;
}
