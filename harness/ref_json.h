// Reference models (the specification side of the differential harnesses).  Short, scalar, allocation-free C++
// written from RFC 8259; compiled to IR together with the harness and executed by the same engine on the same
// symbolic input.  Nothing here includes or calls sonic-cpp.
#pragma once
#include <stddef.h>
#include <stdint.h>

namespace ref {

enum { R_OK = 0, R_INVALID = 1, R_CTRL = 2, R_ESC = 3, R_UNI = 4, R_INF = 5 };

static inline bool is_ws(uint8_t c) { return c == ' ' || c == '\t' || c == '\n' || c == '\r'; }
static inline bool is_dig(uint8_t c) { return c >= '0' && c <= '9'; }
static inline int hexv(uint8_t c) {
  if (c >= '0' && c <= '9') return c - '0';
  if (c >= 'a' && c <= 'f') return c - 'a' + 10;
  if (c >= 'A' && c <= 'F') return c - 'A' + 10;
  return -1;
}

// ---- string literal: p points just after the opening quote.  Decodes into out (may be null), returns R_*;
// on success *pp is just after the closing quote.
static inline int parse_string(const uint8_t*& p, const uint8_t* end, uint8_t* out, size_t* outlen) {
  size_t o = 0;
  while (true) {
    if (p >= end) return R_INVALID;  // unterminated
    uint8_t c = *p++;
    if (c == '"') break;
    if (c < 0x20) return R_CTRL;
    if (c != '\\') { if (out) out[o] = c; o++; continue; }
    if (p >= end) return R_INVALID;
    uint8_t e = *p++;
    uint8_t v;
    switch (e) {
      case '"': v = '"'; break;
      case '\\': v = '\\'; break;
      case '/': v = '/'; break;
      case 'b': v = 8; break;
      case 'f': v = 12; break;
      case 'n': v = 10; break;
      case 'r': v = 13; break;
      case 't': v = 9; break;
      case 'u': {
        // a literal that ends inside an escape is TRUNCATED (R_INVALID), not a malformed escape: only bytes that are present decide
        uint32_t cp = 0;
        for (int i = 0; i < 4; i++) { if (p + i >= end) return R_INVALID; int h = hexv(p[i]); if (h < 0) return R_UNI; cp = cp * 16 + h; }
        p += 4;
        if (cp >= 0xDC00 && cp <= 0xDFFF) return R_UNI;  // lone low surrogate
        if (cp >= 0xD800 && cp <= 0xDBFF) {
          if (p >= end) return R_INVALID;
          if (p[0] != '\\') return R_UNI;
          if (p + 1 >= end) return R_INVALID;
          if (p[1] != 'u') return R_UNI;
          uint32_t lo = 0;
          for (int i = 0; i < 4; i++) { if (p + 2 + i >= end) return R_INVALID; int h = hexv(p[2 + i]); if (h < 0) return R_UNI; lo = lo * 16 + h; }
          if (lo < 0xDC00 || lo > 0xDFFF) return R_UNI;
          p += 6;
          cp = 0x10000 + ((cp - 0xD800) << 10) + (lo - 0xDC00);
        }
        if (cp < 0x80) { if (out) out[o] = cp; o += 1; }
        else if (cp < 0x800) { if (out) { out[o] = 0xC0 | (cp >> 6); out[o + 1] = 0x80 | (cp & 0x3F); } o += 2; }
        else if (cp < 0x10000) { if (out) { out[o] = 0xE0 | (cp >> 12); out[o + 1] = 0x80 | ((cp >> 6) & 0x3F); out[o + 2] = 0x80 | (cp & 0x3F); } o += 3; }
        else { if (out) { out[o] = 0xF0 | (cp >> 18); out[o + 1] = 0x80 | ((cp >> 12) & 0x3F); out[o + 2] = 0x80 | ((cp >> 6) & 0x3F); out[o + 3] = 0x80 | (cp & 0x3F); } o += 4; }
        continue;
      }
      default: return R_ESC;
    }
    if (out) out[o] = v;
    o++;
  }
  if (outlen) *outlen = o;
  return R_OK;
}

// ---- number
struct Num {
  bool neg, is_int;        // is_int: no fraction and no exponent part
  bool fits_u64;           // is_int and |value| <= 2^64-1
  uint64_t mag;            // |value| when fits_u64
  bool overflow;           // |value| rounds to infinity (>= 2^1024 - 2^970)
  bool nonzero;
};

static const char kMaxDec[] =
    "179769313486231580793728971405303415079934132710037826936173778980444968292764750946649017977587207096330286416692887910946555547851940402630657488671505820681908902000708383676273854845817711531764475730270069855571366959622842914819860834936475292719074168444365510704342711559699508093042880177904174497792";

// p at first char of the number. returns R_OK / R_INVALID; on success p is after the number.
static inline int parse_number(const uint8_t*& p, const uint8_t* end, Num* out) {
  Num n; n.neg = false; n.is_int = true; n.fits_u64 = true; n.mag = 0; n.overflow = false; n.nonzero = false;
  if (p < end && *p == '-') { n.neg = true; p++; }
  if (p >= end || !is_dig(*p)) return R_INVALID;
  const uint8_t* ip = p;
  if (*p == '0') p++;
  else while (p < end && is_dig(*p)) p++;
  const uint8_t* ie = p;
  const uint8_t* fp = p; const uint8_t* fe = p;
  if (p < end && *p == '.') {
    p++; n.is_int = false;
    if (p >= end || !is_dig(*p)) return R_INVALID;
    fp = p;
    while (p < end && is_dig(*p)) p++;
    fe = p;
  }
  long exp = 0; bool expbig = false; bool eneg = false;
  if (p < end && (*p == 'e' || *p == 'E')) {
    p++; n.is_int = false;
    if (p < end && (*p == '+' || *p == '-')) { eneg = (*p == '-'); p++; }
    if (p >= end || !is_dig(*p)) return R_INVALID;
    while (p < end && is_dig(*p)) { if (exp < 100000000) exp = exp * 10 + (*p - '0'); p++; }
    if (eneg) exp = -exp;
  }
  // integer magnitude
  if (n.is_int) {
    uint64_t v = 0; bool fits = true;
    for (const uint8_t* q = ip; q < ie; q++) {
      uint8_t d = *q - '0';
      if (v > (UINT64_MAX - d) / 10) { fits = false; }
      v = v * 10 + d;
    }
    n.fits_u64 = fits; n.mag = v;
  } else n.fits_u64 = false;
  // decimal order of magnitude: value = 0.d1d2d3... x 10^(order), d1 != 0
  // digits = int digits then fraction digits; strip leading zeros
  long nint = ie - ip, nfr = fe - fp;
  long lead = 0; bool any = false;
  for (long k = 0; k < nint + nfr; k++) {
    uint8_t d = k < nint ? ip[k] : fp[k - nint];
    if (d != '0') { any = true; break; }
    lead++;
  }
  n.nonzero = any;
  if (any) {
    long order = nint - lead + exp;   // number of digits before the decimal point of the normalised value
    if (order > 309) n.overflow = true;
    else if (order == 309) {
      // compare digit string against kMaxDec (309 digits), missing digits are zeros
      int cmp = 0;
      long total = nint + nfr;
      for (long k = 0; k < 309 && cmp == 0; k++) {
        long idx = lead + k;
        uint8_t d = idx < total ? (idx < nint ? ip[idx] : fp[idx - nint]) : '0';
        if (d != (uint8_t)kMaxDec[k]) cmp = d < (uint8_t)kMaxDec[k] ? -1 : 1;
      }
      if (cmp == 0) {
        // remaining digits beyond 309 can only make it larger or equal
        cmp = 0;
      }
      n.overflow = cmp >= 0;
    }
  }
  *out = n;
  return R_OK;
}

// ---- whole-text recogniser.  Returns R_OK iff [s, s+n) is exactly one JSON text (RFC 8259), else a fault class.
struct Recog {
  const uint8_t* p; const uint8_t* end; int depth_left;
  void ws() { while (p < end && is_ws(*p)) p++; }
  int lit(const char* w, int k) {
    for (int i = 0; i < k; i++) { if (p + i >= end || p[i] != (uint8_t)w[i]) return R_INVALID; }
    p += k; return R_OK;
  }
  int value() {
    ws();
    if (p >= end) return R_INVALID;
    uint8_t c = *p;
    if (c == '"') { p++; return parse_string(p, end, nullptr, nullptr); }
    if (c == '-' || is_dig(c)) { Num nn; int r = parse_number(p, end, &nn); if (r) return r; return nn.overflow ? R_INF : R_OK; }
    if (c == 't') return lit("true", 4);
    if (c == 'f') return lit("false", 5);
    if (c == 'n') return lit("null", 4);
    if (c == '[') {
      p++; ws();
      if (p < end && *p == ']') { p++; return R_OK; }
      while (true) {
        int r = value(); if (r) return r;
        ws();
        if (p >= end) return R_INVALID;
        if (*p == ',') { p++; continue; }
        if (*p == ']') { p++; return R_OK; }
        return R_INVALID;
      }
    }
    if (c == '{') {
      p++; ws();
      if (p < end && *p == '}') { p++; return R_OK; }
      while (true) {
        ws();
        if (p >= end || *p != '"') return R_INVALID;
        p++;
        int r = parse_string(p, end, nullptr, nullptr); if (r) return r;
        ws();
        if (p >= end || *p != ':') return R_INVALID;
        p++;
        r = value(); if (r) return r;
        ws();
        if (p >= end) return R_INVALID;
        if (*p == ',') { p++; continue; }
        if (*p == '}') { p++; return R_OK; }
        return R_INVALID;
      }
    }
    return R_INVALID;
  }
};

static inline int recognise(const uint8_t* s, size_t n) {
  Recog r; r.p = s; r.end = s + n; r.depth_left = 1 << 20;
  int e = r.value();
  if (e) return e;
  r.ws();
  return r.p == r.end ? R_OK : R_INVALID;
}

}  // namespace ref
