// C12 / C13 / C18 / C06: the DOM mutation API driven by a SYMBOLIC operation script, in lock-step with a plain model
// (array = vector of values, object = vector of key/value pairs, RemoveMember moves the last member into the hole).
// After every step the real nodes are compared with the model through the public observer API.
//   param0 = mode bits: 1 = C12 observers, 2 = C13 heap ledger + copy independence, 4 = C18 equality laws, 8 = C06 dump/parse round trip
//   param1 = number of symbolic steps, param2 = op-set selector (0 object ops, 1 array ops, 2 node/copy/move ops, 3 all)
//   param3 = number of concrete members/elements added before the script (growth points), param4 = start state: 0 empty roots,
//            1 parsed 3-member document, 2 parsed one-member object (capacity 1), 3 three members with a lookup map already built
#include "sonic/sonic.h"
#include "verif.h"
#include <stdlib.h>
#include <string.h>

#ifdef ALLOC_SIMPLE
using Alloc = sonic_json::SimpleAllocator;
#else
using Alloc = SONIC_DEFAULT_ALLOCATOR;
#endif
using Node = sonic_json::DNode<Alloc>;
using Doc = sonic_json::GenericDocument<Node>;
using sonic_json::StringView;

// ------------------------------------------------------------------ keys
static const char kLong[] = "a_key_longer_than_one_vector_blk!";   // 33 bytes
static char g_keybuf[40][8];
static StringView key_of(int k) {
  if (k == 0) return StringView("a", 1);
  if (k == 1) return StringView("b", 1);
  if (k == 2) return StringView("", 0);
  if (k == 3) return StringView(kLong, 33);
  // generated distinct keys k4.. : "m<k>"
  char* b = g_keybuf[k];
  b[0] = 'm'; b[1] = '0' + (k / 10); b[2] = '0' + (k % 10); b[3] = 0;
  return StringView(b, 3);
}

// ------------------------------------------------------------------ model
enum { MNull = 0, MInt = 1, MStr = 2, MArr = 3, MObj = 4, MTrue = 5, MDbl = 6 };
struct MVal { uint8_t kind; uint8_t skey; uint8_t n; uint8_t key[40]; int16_t kid[40]; uint64_t num; };
static MVal g_pool[400]; static int g_npool;
static int mnew(int kind) { MVal& v = g_pool[g_npool]; v.kind = kind; v.n = 0; v.num = 0; v.skey = 0; return g_npool++; }
static int mcopy(int i) {
  int j = mnew(g_pool[i].kind); g_pool[j].num = g_pool[i].num; g_pool[j].skey = g_pool[i].skey; g_pool[j].n = g_pool[i].n;
  for (int k = 0; k < g_pool[i].n; k++) { g_pool[j].key[k] = g_pool[i].key[k]; int c = mcopy(g_pool[i].kid[k]); g_pool[j].kid[k] = c; }
  return j;
}
static bool mequal(int a, int b) {   // JSON value equality, objects as key->value maps (distinct keys assumed)
  MVal& x = g_pool[a]; MVal& y = g_pool[b];
  if (x.kind != y.kind) return false;
  if (x.kind == MInt || x.kind == MDbl) return x.num == y.num;      // doubles: bit-exact, so -0.0 != 0.0; kinds differ for 1 vs 1.0
  if (x.kind == MStr) return x.skey == y.skey;
  if (x.kind == MArr) { if (x.n != y.n) return false; for (int i = 0; i < x.n; i++) if (!mequal(x.kid[i], y.kid[i])) return false; return true; }
  if (x.kind == MObj) {
    if (x.n != y.n) return false;
    for (int i = 0; i < x.n; i++) { int f = -1; for (int j = 0; j < y.n; j++) if (y.key[j] == x.key[i]) { f = j; break; } if (f < 0 || !mequal(x.kid[i], y.kid[f])) return false; }
    return true;
  }
  return true;
}
static bool mdistinct(int a) {
  MVal& x = g_pool[a];
  if (x.kind == MObj) for (int i = 0; i < x.n; i++) for (int j = i + 1; j < x.n; j++) if (x.key[i] == x.key[j]) return false;
  if (x.kind == MObj || x.kind == MArr) for (int i = 0; i < x.n; i++) if (!mdistinct(x.kid[i])) return false;
  return true;
}

// ------------------------------------------------------------------ observers (C12)
static void compare(const Node& n, int mi, bool hasmap_known_distinct) {
  MVal& m = g_pool[mi];
  switch (m.kind) {
    case MNull: if (!n.IsNull()) verif_fail("C12: node is not null where the model has null"); return;
    case MTrue: if (!n.IsTrue()) verif_fail("C12: node is not true where the model has true"); return;
    case MInt:
      if (!n.IsInt64() && !n.IsUint64()) verif_fail("C12: node is not an integer where the model has one");
      verif_check((uint64_t)n.GetInt64() == m.num, "C12: integer payload differs from the model");
      return;
    case MDbl: {
      if (!n.IsDouble() || n.IsInt64() || n.IsUint64()) verif_fail("C12: node is not a double where the model has one");
      double d = n.GetDouble(); uint64_t b; memcpy(&b, &d, 8);
      if (b != m.num) verif_fail("C12: double bits differ from the model");
      return;
    }
    case MStr: {
      if (!n.IsString()) verif_fail("C12: node is not a string where the model has one");
      StringView e = key_of(m.skey), g = n.GetStringView();
      if (g.size() != e.size() || memcmp(g.data(), e.data(), e.size()) != 0) verif_fail("C12: string content differs from the model");
      return;
    }
    case MArr: {
      if (!n.IsArray()) verif_fail("C12: node is not an array where the model has one");
      if (n.Size() != m.n || n.Empty() != (m.n == 0)) verif_fail("C12: array Size/Empty differ from the model");
      if (n.Capacity() < n.Size()) verif_fail("C12: Capacity < Size");
      size_t i = 0;
      for (auto it = n.Begin(); it != n.End(); ++it, ++i) { if (i >= m.n) verif_fail("C12: array iteration longer than the model"); compare(*it, m.kid[i], true); }
      if (i != m.n) verif_fail("C12: array iteration shorter than the model");
      for (size_t k = 0; k < m.n; k++) if (&n[k] != &*(n.Begin() + k)) verif_fail("C12: operator[](index) disagrees with iteration");
      if (m.n && &n.Back() != &n[m.n - 1]) verif_fail("C12: Back() is not the last element");
      if (m.n) { const Node* p = n.AtPointer(sonic_json::JsonPointerView({sonic_json::JsonPointerNodeView((int)(m.n - 1))})); if (p != &n[m.n - 1]) verif_fail("C12: AtPointer(index) wrong"); }
      { const Node* p = n.AtPointer(sonic_json::JsonPointerView({sonic_json::JsonPointerNodeView((int)m.n)})); if (p) verif_fail("C12: AtPointer beyond the end resolves"); }
      return;
    }
    case MObj: {
      if (!n.IsObject()) verif_fail("C12: node is not an object where the model has one");
      if (n.Size() != m.n || n.Empty() != (m.n == 0)) verif_fail("C12: object Size/Empty differ from the model");
      if (n.Capacity() < n.Size()) verif_fail("C12: Capacity < Size");
      size_t i = 0;
      for (auto it = n.MemberBegin(); it != n.MemberEnd(); ++it, ++i) {
        if (i >= m.n) verif_fail("C12: member iteration longer than the model");
        StringView e = key_of(m.key[i]), g = it->name.GetStringView();
        if (!it->name.IsString() || g.size() != e.size() || memcmp(g.data(), e.data(), e.size()) != 0) verif_fail("C12: member name differs from the model");
        compare(it->value, m.kid[i], true);
      }
      if (i != m.n) verif_fail("C12: member iteration shorter than the model");
      // lookups for every key of the universe that occurs at most once (and for absent keys)
      for (int k = 0; k < 4 + (m.n > 4 ? 2 : 0); k++) {
        int kk = k < 4 ? k : (k == 4 ? 4 : 4 + m.n - 5);
        int first = -1, cnt = 0;
        for (int j = 0; j < m.n; j++) if (m.key[j] == kk) { if (first < 0) first = j; cnt++; }
        if (cnt > 1) continue;                   // duplicate keys: which one a lookup returns is not specified with a map
        StringView ks = key_of(kk);
        auto f1 = n.FindMember(ks); auto f2 = n.FindMember(ks.data(), ks.size());
        if (first < 0) {
          if (f1 != n.MemberEnd() || f2 != n.MemberEnd() || n.HasMember(ks)) verif_fail("C12: lookup finds a key the model does not have");
          if (!n[ks].IsNull()) verif_fail("C12: operator[] of a missing key is not null");
          if (n.AtPointer(sonic_json::JsonPointerView({sonic_json::JsonPointerNodeView(ks)}))) verif_fail("C12: AtPointer resolves a missing key");
        } else {
          if (f1 != n.MemberBegin() + first || f2 != f1 || !n.HasMember(ks)) verif_fail("C12: lookup does not return the member the model has");
          if (&n[ks] != &f1->value) verif_fail("C12: operator[] disagrees with FindMember");
          if (n.AtPointer(sonic_json::JsonPointerView({sonic_json::JsonPointerNodeView(ks)})) != &f1->value) verif_fail("C12: AtPointer(key) disagrees with FindMember");
        }
      }
      return;
    }
  }
}

// ------------------------------------------------------------------ value construction
static int g_last_model;
static Node make_value(int vk, uint64_t p, int k, Alloc& a) {
  Node v;
  switch (vk) {
    case 0: v.SetInt64((int64_t)p); g_last_model = mnew(MInt); g_pool[g_last_model].num = p; break;
    case 1: v.SetString(key_of(k), a); g_last_model = mnew(MStr); g_pool[g_last_model].skey = k; break;    // owned copy
    case 2: { v.SetArray(); Node e; e.SetInt64(7); v.PushBack(std::move(e), a); g_last_model = mnew(MArr); int c = mnew(MInt); g_pool[c].num = 7; g_pool[g_last_model].kid[0] = c; g_pool[g_last_model].n = 1; break; }
    case 3: v.SetNull(); g_last_model = mnew(MNull); break;
    case 4: { v.SetObject(); Node e; e.SetInt64((int64_t)p); v.AddMember(key_of(0), std::move(e), a, true); g_last_model = mnew(MObj); int c = mnew(MInt); g_pool[c].num = p; g_pool[g_last_model].kid[0] = c; g_pool[g_last_model].key[0] = 0; g_pool[g_last_model].n = 1; break; }
    case 6: {   // a double from a small set that separates bit-exact from numeric equality and double from integer kinds
      static const uint64_t kD[] = {0x0000000000000000ull /*0.0*/, 0x8000000000000000ull /*-0.0*/, 0x3ff0000000000000ull /*1.0*/, 0x4004000000000000ull /*2.5*/};
      uint64_t bits = kD[p & 3]; double d; memcpy(&d, &bits, 8);
      v.SetDouble(d); g_last_model = mnew(MDbl); g_pool[g_last_model].num = bits; break;
    }
    default: v.SetString(key_of(k)); g_last_model = mnew(MStr); g_pool[g_last_model].skey = k; break;      // const (unowned) string
  }
  return v;
}

static long g_mode;
// payloads are symbolic 64-bit words, except in the serialise/parse round trip (C06) where number formatting - C08's subject -
// would put the digit-splitting arithmetic into every path: there the payload is one of three fixed values
static uint64_t payload() {
  if (g_mode & 8) { static const uint64_t v[] = {0, (uint64_t)-1, 1234567890123ull}; return v[verif_concrete(verif_range(0, 2, "payload"))]; }
  return verif_range(0, UINT64_MAX, "payload");
}
static size_t pick(size_t lo, size_t hi, const char* name) { return lo >= hi ? lo : verif_concrete(verif_range(lo, hi, name)); }

static void mremove(MVal& m, int idx) { m.key[idx] = m.key[m.n - 1]; m.kid[idx] = m.kid[m.n - 1]; m.n--; }

extern "C" int h_dom(void) {
  long mode = verif_param(0); g_mode = mode; size_t steps = verif_param(1); long opset = verif_param(2); size_t pre = verif_param(3); long parsed = verif_param(4);
  {
    Doc doc;                      // owns the allocator
    Alloc& a = doc.GetAllocator();
    Node X, Y;                    // two roots: X starts as an object, Y as an array
    int mx, my;
    if (parsed == 1) {
      static const char kText[] = "{\"a\":1,\"b\":[2,3],\"\":{\"a\":4}}";
      doc.Parse(kText, sizeof(kText) - 1);
      X = std::move(*static_cast<Node*>(&doc));
      mx = mnew(MObj); MVal& m = g_pool[mx];
      int v1 = mnew(MInt); g_pool[v1].num = 1; int ar = mnew(MArr); int e2 = mnew(MInt); g_pool[e2].num = 2; int e3 = mnew(MInt); g_pool[e3].num = 3;
      g_pool[ar].kid[0] = e2; g_pool[ar].kid[1] = e3; g_pool[ar].n = 2;
      int ob = mnew(MObj); int e4 = mnew(MInt); g_pool[e4].num = 4; g_pool[ob].kid[0] = e4; g_pool[ob].key[0] = 0; g_pool[ob].n = 1;
      m.key[0] = 0; m.kid[0] = v1; m.key[1] = 1; m.kid[1] = ar; m.key[2] = 2; m.kid[2] = ob; m.n = 3;
    } else if (parsed == 2) {
      // a parsed one-member object has capacity 1
      static const char kOne[] = "{\"a\":1}";
      doc.Parse(kOne, sizeof(kOne) - 1);
      X = std::move(*static_cast<Node*>(&doc));
      mx = mnew(MObj); int v1 = mnew(MInt); g_pool[v1].num = 1; g_pool[mx].key[0] = 0; g_pool[mx].kid[0] = v1; g_pool[mx].n = 1;
    } else { X.SetObject(); mx = mnew(MObj); }
    Y.SetArray(); my = mnew(MArr);
    for (size_t i = 0; i < pre; i++) {
      Node v; v.SetInt64((int64_t)i); X.AddMember(key_of(4 + (int)i), std::move(v), a, true);
      int c = mnew(MInt); g_pool[c].num = i; MVal& m = g_pool[mx]; m.key[m.n] = 4 + i; m.kid[m.n] = c; m.n++;
      Node w; w.SetInt64((int64_t)i); Y.PushBack(std::move(w), a);
      int d = mnew(MInt); g_pool[d].num = i; MVal& q = g_pool[my]; q.kid[q.n] = d; q.n++;
    }
    if (parsed == 3) {
      // three distinct members and a lookup map already built
      for (int k = 0; k < 3; k++) { Node v; v.SetInt64(10 + k); X.AddMember(key_of(k == 2 ? 3 : k), std::move(v), a, true); int c = mnew(MInt); g_pool[c].num = 10 + k; MVal& m = g_pool[mx]; m.key[m.n] = (k == 2 ? 3 : k); m.kid[m.n] = c; m.n++; }
      X.CreateMap(a);
    }
    for (size_t s = 0; s < steps; s++) {
      size_t t = (opset == 0) ? 0 : (opset == 1) ? 1 : pick(0, 1, "target");
      Node& T = t ? Y : X; Node& O = t ? X : Y;
      int& mt = t ? my : mx; int& mo = t ? mx : my;
      static const uint8_t kObjOps[] = {5, 6, 7, 8, 9, 10, 15, 16};
      static const uint8_t kArrOps[] = {11, 12, 13, 14, 15, 16};
      static const uint8_t kNodeOps[] = {0, 1, 2, 3, 4, 17, 18, 19, 20, 21, 5, 11, 9, 22};
      size_t op;
      if (opset == 0) op = kObjOps[pick(0, sizeof(kObjOps) - 1, "op")];
      else if (opset == 1) op = kArrOps[pick(0, sizeof(kArrOps) - 1, "op")];
      else if (opset == 2) op = kNodeOps[pick(0, sizeof(kNodeOps) - 1, "op")];
      else op = pick(0, 22, "op");
      MVal* m = &g_pool[mt];
      bool isobj = m->kind == MObj, isarr = m->kind == MArr;
      switch (op) {
        case 0: T.SetNull(); mt = mnew(MNull); break;
        case 1: T.SetObject(); mt = mnew(MObj); break;
        case 2: T.SetArray(); mt = mnew(MArr); break;
        case 3: { uint64_t p = payload(); T.SetInt64((int64_t)p); mt = mnew(MInt); g_pool[mt].num = p; break; }
        case 4: { int k = (int)pick(0, 3, "key"); int cp = (int)pick(0, 1, "copy"); if (cp) T.SetString(key_of(k), a); else T.SetString(key_of(k)); mt = mnew(MStr); g_pool[mt].skey = k; break; }
        case 5: if (isobj && m->n < 38) {
            int k = (int)pick(0, 3, "key"); int vk = (int)pick(0, 6, "vkind"); int ck = (int)pick(0, 1, "copykey");
            uint64_t p = vk == 6 ? pick(0, 3, "dsel") : (vk == 0 && !(g_mode & 8) ? (pick(0, 1, "small") ? pick(0, 1, "ival") : payload()) : payload());
            Node v = make_value(vk, p, (k + 1) & 3, a);
            auto it = T.AddMember(key_of(k), std::move(v), a, ck != 0);
            if (it != T.MemberBegin() + m->n) verif_fail("C12: AddMember does not return the new last member");
            if (!v.IsNull()) verif_fail("C12: AddMember did not consume the moved value");
            m->key[m->n] = k; m->kid[m->n] = g_last_model; m->n++;
          } break;
        case 6: if (isobj) {
            int k = (int)pick(0, 4, "key"); int idx = -1;
            for (int j = 0; j < m->n; j++) if (m->key[j] == k) { idx = j; break; }
            // with a lookup map and duplicate keys the member removed is unspecified: keep to distinct keys then
            int cnt = 0; for (int j = 0; j < m->n; j++) cnt += (m->key[j] == k);
            if (cnt > 1) break;
            bool r = T.RemoveMember(key_of(k));
            if (r != (idx >= 0)) verif_fail("C12: RemoveMember result differs from the model");
            if (idx >= 0) mremove(*m, idx);
          } break;
        case 7: if (isobj) {
            size_t i = pick(0, m->n, "first"); size_t j = pick(i, m->n, "last");
            auto it = T.EraseMember(T.MemberBegin() + i, T.MemberBegin() + j);
            if (it != T.MemberBegin() + (j - i >= m->n ? 0 : i)) verif_fail("C12: EraseMember returns a wrong iterator");
            size_t w = i; for (size_t r = j; r < m->n; r++, w++) { m->key[w] = m->key[r]; m->kid[w] = m->kid[r]; }
            m->n = w;
          } break;
        case 8: if (isobj) { size_t c = pick(0, 3, "capsel"); static const size_t caps[] = {0, 1, 17, 30}; T.MemberReserve(caps[c], a); if (T.Capacity() < caps[c]) verif_fail("C12: MemberReserve did not reserve"); } break;
        case 9: if (isobj) { if (!T.CreateMap(a)) verif_fail("C12: CreateMap failed"); } break;
        case 10: if (isobj) T.DestroyMap(); break;
        case 11: if (isarr && m->n < 38) {
            int vk = (int)pick(0, 6, "vkind"); uint64_t p = vk == 6 ? pick(0, 3, "dsel") : (vk == 0 && !(g_mode & 8) ? (pick(0, 1, "small") ? pick(0, 1, "ival") : payload()) : payload());
            Node v = make_value(vk, p, 1, a);
            T.PushBack(std::move(v), a);
            m->kid[m->n] = g_last_model; m->n++;
          } break;
        case 12: if (isarr && m->n) { T.PopBack(); m->n--; } break;
        case 13: if (isarr) {
            size_t i = pick(0, m->n, "first"); size_t j = pick(i, m->n, "last");
            auto it = T.Erase(T.Begin() + i, T.Begin() + j);
            if (it != T.Begin() + i) verif_fail("C12: Erase returns a wrong iterator");
            size_t w = i; for (size_t r = j; r < m->n; r++, w++) m->kid[w] = m->kid[r];
            m->n = w;
          } break;
        case 14: if (isarr) { size_t c = pick(0, 3, "capsel"); static const size_t caps[] = {0, 1, 17, 30}; T.Reserve(caps[c], a); if (T.Capacity() < caps[c]) verif_fail("C12: Reserve did not reserve"); } break;
        case 15: if (isobj || isarr) { T.Clear(); m->n = 0; } break;
        case 16: if ((isobj || isarr) && m->n) {
            size_t i = pick(0, m->n - 1, "index"); uint64_t p = payload();
            if (isarr) T[i].SetInt64((int64_t)p);
            else { int cnt = 0; for (int j = 0; j < m->n; j++) cnt += (m->key[j] == m->key[i]); if (cnt > 1) break; T[key_of(m->key[i])].SetInt64((int64_t)p); }
            int c = mnew(MInt); g_pool[c].num = p; m->kid[i] = c;
          } break;
        case 17: { int cs = (int)pick(0, 1, "copystring"); O.CopyFrom(T, a, cs != 0); mo = mcopy(mt); break; }
        case 18: O = std::move(T); mo = mt; mt = mnew(MNull); break;
        case 19: T.Swap(O); { int tmp = mt; mt = mo; mo = tmp; } break;
        case 20: if (isobj && m->n < 38) { int k = (int)pick(0, 3, "key"); T.AddMember(key_of(k), std::move(O), a, true); m->key[m->n] = k; m->kid[m->n] = mo; m->n++; mo = mnew(MNull); } break;
        case 22: { static const uint64_t kD[] = {0x0000000000000000ull, 0x8000000000000000ull, 0x3ff0000000000000ull, 0x4004000000000000ull};
                   uint64_t bits = kD[pick(0, 3, "dsel")]; double d; memcpy(&d, &bits, 8); T.SetDouble(d); mt = mnew(MDbl); g_pool[mt].num = bits; break; }
        case 21: if (isarr && m->n < 38) { T.PushBack(std::move(O), a); m->kid[m->n] = mo; m->n++; mo = mnew(MNull); } break;
      }
      if (mode & 1) { compare(X, mx, true); compare(Y, my, true); }
      if (mode & 4) {
        // C18: equality is JSON value equality (distinct keys), reflexive, symmetric; a deep copy is equal
        if (mdistinct(mx) && mdistinct(my)) {
          bool eq = (X == Y), me = mequal(mx, my);
          if (eq != me) verif_fail(me ? "C18: equal values compare unequal" : "C18: different values compare equal");
          if ((Y == X) != eq || (X != Y) == eq) verif_fail("C18: == is not symmetric or != is not its negation");
          if (!(X == X) || !(Y == Y)) verif_fail("C18: == is not reflexive");
          sonic_json::DNode<sonic_json::SimpleAllocator> Z; sonic_json::SimpleAllocator sa;
          Z.CopyFrom(X, sa, true);
          if (!(Z == X) || !(X == Z)) verif_fail("C18: a deep copy (other allocator, owned strings) is not equal to its source");
          if ((Z == Y) != eq) verif_fail("C18: == is not transitive across the copy");
        }
      }
      if (mode & 8) {
        // C06: serialise, parse back, compare, re-serialise
        sonic_json::WriteBuffer wb;
        if (X.Serialize(wb) != sonic_json::kErrorNone) verif_fail("C06: Serialize failed on a finite document");
        size_t n1 = wb.Size();
        char* t1 = (char*)malloc(n1 + 1); memcpy(t1, wb.ToString(), n1);
        Doc back; back.Parse(t1, n1);
        if (back.HasParseError()) verif_fail("C06: serialised text does not parse back");
        if (mdistinct(mx) && !(back == X)) verif_fail("C06: parsed-back document differs from the original");
        sonic_json::WriteBuffer wb2;
        back.Serialize(wb2);
        if (wb2.Size() != n1 || memcmp(wb2.ToString(), t1, n1) != 0) verif_fail("C06: re-serialisation is not byte-identical");
        free(t1);
      }
    }
    if (mode & 2) {
      // C13: a deep copy is independent of its source: destroy/mutate the source, the copy still matches the model
      sonic_json::DNode<sonic_json::SimpleAllocator>* Z = new sonic_json::DNode<sonic_json::SimpleAllocator>(); sonic_json::SimpleAllocator sa;
      Z->CopyFrom(X, sa, true);
      int mz = mcopy(mx);
      X.SetNull(); mx = mnew(MNull);
      Node W; W.CopyFrom(*Z, a, true);
      compare(W, mz, true);
      delete Z;
      compare(W, mz, true);
    }
  }
  if (mode & 2) { if (verif_live_heap() != 0) verif_fail("C13: heap blocks still allocated after every owner was destroyed"); }
  return 0;
}
