// C07 (digit generation): F64ToDecimal (Schubfach) on a window of significands for ONE binary exponent per job, against an
// exact wide-integer oracle supplied by the engine: the decimal (sig, exp) must lie in the rounding interval of the double
// (closed iff the significand is even), no decimal with a larger exponent may lie in it (shortest), and neither neighbour
// sig-1 / sig+1 at the same exponent may be closer (ties: even digit).
//   param0 = biased exponent (0 = subnormals), param1 = base of the 52-bit fraction, param2 = W (fraction = base + delta, delta < 2^W),
//   param3 = vacuity twin, param4/5 = the two decimal exponents the result may have (computed by the check; make the oracle's powers constants)
#include "sonic/internal/ftoa.h"
#include "verif.h"

extern "C" int verif_oracle_shortest(uint64_t c, int q, int irregular, uint64_t sig, int exp);   // 1 iff (sig,exp) is the shortest, closest decimal in the interval

extern "C" int h_f64dec(void) {
  int rexp = (int)verif_param(0); uint64_t base = (uint64_t)verif_param(1); unsigned W = (unsigned)verif_param(2);
  uint64_t delta = verif_range(0, (1ull << W) - 1, "delta");
  uint64_t rsig = (base + delta) & 0xFFFFFFFFFFFFFull;
  uint64_t c; int q;
  if (rexp) { c = rsig | (1ull << 52); q = rexp - 1075; } else { c = rsig; q = -1074; verif_assume(c != 0); }
  sonic_json::internal::F64Decimal dec = sonic_json::internal::F64ToDecimal(rsig, rexp, c, q);
  if (verif_param(3)) { verif_check(0, "WITNESS: end of harness reached"); return 0; }
  verif_check(dec.sig != 0 && dec.sig < 100000000000000000ull, "C07: significand has more than 17 digits (output would exceed the reserved bytes)");
  verif_check(verif_oracle_shortest(c, q, rsig == 0 && rexp > 1, dec.sig, dec.exp), "C07: decimal is not the shortest/closest one that reads back to the same double");
  return 1;
}
