"""Job families over harness/c_dom.cpp (symbolic operation scripts on the DOM API), shared by C12 / C13 / C18 / C06."""
from runner import Job

OPSET = {0: 'object operations (AddMember/RemoveMember/EraseMember/MemberReserve/CreateMap/DestroyMap/Clear/assign)',
         1: 'array operations (PushBack/PopBack/Erase/Reserve/Clear/assign)',
         2: 'node operations (Set*/CopyFrom/move/Swap/nesting, AddMember, PushBack, CreateMap) on either of two roots',
         3: 'all 23 operations on either of two roots'}
ASSUME = ['clang-14 -O1 lowering preserves semantics; llsym implements the IR semantics it uses',
          'compiled with -D__SANITIZE_ADDRESS__, i.e. the library\'s sanitizer code path (key comparison never reads past the key); the production compare kernel is C14\'s subject',
          'libstdc++ red-black tree rebalancing (3 out-of-line functions used by std::multimap) is replaced by an unbalanced binary search tree with the same in-order contract; everything inlined from <map> executes as is',
          'reference model (vector of values / vector of key-value pairs) is in harness/c_dom.cpp; keys are drawn from {"a","b","",33-byte key} plus generated distinct keys; payloads are symbolic 64-bit words (three fixed values in the serialise round trip)',
          'allocation never fails; histories longer than the stated number of symbolic steps (after the concrete prefix) are outside the claim']


def jobs(pid, mode, tier, defines=(), plan=None):
    J = []
    defs = tuple(defines) + ('__SANITIZE_ADDRESS__',)
    tag = pid + ('.simple' if 'ALLOC_SIMPLE' in defines else '')
    for (steps, opset, pre, parsed, nproc) in plan:
        J.append(Job('%s.s%d.ops%d.pre%d.parsed%d' % (tag, steps, opset, pre, parsed), 'harness/c_dom.cpp', '@h_dom', [mode, steps, opset, pre, parsed],
                     defines=defs, nproc=nproc, timeout=3400, max_paths=5000000, max_steps=30000000,
                     bound='every script of %d symbolic step(s) of %s, after %d concrete members/elements%s' % (steps, OPSET[opset], pre, {0: '', 1: ', starting from a parsed document', 2: ', starting from a parsed one-member object (capacity 1)', 3: ', starting from three members with a lookup map'}[parsed])))
    return J
