import re, runner
from runner import Job

ASSUME = ['clang-14 -O1 lowering preserves semantics; ll2c translation validated every run against the real F64ToDecimal (2000 seeded vectors per job)',
          'oracle for digit generation: exact wide-integer arithmetic in the CBMC glue (lib/job_cbmc.py): the decimal lies in the rounding interval (closed iff the significand is even), no multiple of the next power of ten lies in it (shortest), neither neighbour at the same exponent is closer (ties: even digit)',
          'claim is per (binary exponent, window of 2^10 consecutive significands); W=16 windows measured out of reach for most exponents (no verdict in 900 s). Significands outside the windows are not claimed',
          'formatting (fixed / scientific / integer fast path / -0.0 / length <= 32 / reads back / shortest and closest vs python repr) is checked end to end on ~45 000 doubles from 42 bit-pattern templates (incl. every power of two), each a concrete execution of the real F64toa chosen by the engine forking over symbolic hex digits: enumeration, not a universal claim']


def kk(bexp, irregular):
    q = (bexp if bexp else 1) - 1075
    return (q * 1262611 - (524031 if irregular else 0)) >> 22


def jobs(tier, seed):
    import random
    rnd = random.Random(seed); q_ = tier == 'quick'; J = []
    W = 10
    exps = [0, 1, 54, 500, 1022, 1023, 1075, 1076, 1078, 1081, 1500, 2046] if q_ else sorted(set([0, 1, 2, 54, 1022, 1023, 1024, 1074, 1075, 1076, 1077, 2045, 2046] + list(range(8, 2047, 24))))
    for bexp in exps:
        q = (bexp if bexp else 1) - 1075
        lo = min(kk(bexp, True), kk(bexp, False))
        bigw = 200 + int(3.33 * (abs(lo) + 2)) + abs(q) + 90
        bases = [(0, 'fraction 0 upward (includes the irregular power-of-two case)'), ((1 << 52) - (1 << W), 'top of the significand range')]
        if not q_: bases.append((rnd.randrange(0, (1 << 52) - (1 << W)), 'seeded fraction'))
        for base, desc in bases:
            J.append(Job('C07.dec.b%d.f%d' % (bexp, base), 'harness/c_f64dec.cpp', '@h_f64dec', [bexp, base, W, 0, lo & 0xffffffff, (lo + 1) & 0xffffffff], engine='cbmc', timeout=3000,
                         bound='F64ToDecimal, biased exponent %d, all %d fractions base=%d + delta (%s)' % (bexp, 1 << W, base, desc),
                         extra=dict(bigw=bigw, unwind=402, input_names=[('int', 'delta')], cbmc_timeout=2400, witness_param=3, validate_vectors=2000, seed=seed)))
    for t in range(42):
        J.append(Job('C07.text.t%d' % t, 'harness/c_ftoatext.cpp', '@h_ftoatext', [t], nproc=2, max_paths=100000,
                     bound='F64toa on bit-pattern template #%d (harness/c_ftoatext.cpp kTmpl), every value of its symbolic hex digits' % t))
    J.append(Job('C07.table.Pow10CeilSig', 'harness/c_f64dec.cpp', '@h_f64dec', [], engine='ground', bound='all 617 rows of the Schubfach table g[k] = ceil(10^k * 2^(127 - floor(log2 10^k))), k = -292..324, read from the IR',
                 extra=dict(symbol='Pow10CeilSig', k0=-292, kmax=324, formula='ceil_hi_lo', what='C07: Pow10CeilSig table')))
    return J


def main(tier, seed, t0, only=None):
    J = jobs(tier, seed)
    if only: J = [j for j in J if re.search(only, j.name)]
    res = runner.run_jobs(J)
    return runner.finish('C07', tier, seed, res, 'model_checking',
                         'bounded model checking (CBMC on C translated from the real LLVM IR) of F64ToDecimal per binary exponent and significand window with an exact interval/shortest/closest oracle; llsym-driven concrete executions of F64toa on templates with an exact text oracle',
                         ASSUME, t0)
