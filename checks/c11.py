import re, runner
from runner import Job

ASSUME = ['clang-14 -O1 lowering preserves semantics; llsym implements the IR semantics it uses',
          'the caller\'s buffer is an object of exactly len bytes (no sentinel, no padding); any read outside it - including one byte before it - is a violation',
          'paths are the fourteen concrete JSON pointers of harness/c_ondemand.cpp (whole document, keys a/b/"", indices -1,0,1,2, two-step combinations)']
NP = 14


def jobs(tier, pid='C11', mode=1, config='haswell', defines=(), nmax=None, small=False):
    q = tier == 'quick'; J = []
    def add(name, params, bound, nproc=1, **kw):
        J.append(Job('%s.%s' % (pid, name), 'harness/c_ondemand.cpp', '@h_ondemand', [mode] + params, config=config, defines=defines, keep=['parseFloatingFast', 'ParseFloatingNormalFast', 'parseFloatEiselLemire64', 'AtofNative'],
                     stubs='stubs_number', nproc=nproc, bound=bound, timeout=3400, max_paths=3000000, **kw))
    N = nmax if nmax is not None else (7 if q else 9)
    for path in range(NP):
        for n in range(0, N + 1):
            add('free%d.p%d' % (n, path), [path, 0, n], 'every byte string of length %d, path #%d' % (n, path), nproc=1 if n < 7 else 4)
    # tail-length families: filler of 32k+r / 64k+r bytes then 4 symbolic bytes, inside string / array / object / top level
    fills = [31, 32, 33, 64, 65] if small else [30, 31, 32, 33, 34, 62, 63, 64, 65, 66] if q else list(range(28, 37)) + list(range(60, 69)) + [126, 127, 128, 129, 130]
    KN = {0: 'spaces', 1: 'string content with brackets', 2: 'string content ending in an escaped quote', 3: '3 spaces then a second run of spaces (cached whitespace bitmap)', 4: 'string content with an escaped quote at a block edge followed by 20 more bytes of the same string'}
    for sk in range(5):
        for kind in (0, 1, 2, 3, 4):
            ff = fills if kind < 2 else ([17, 33, 65] if kind in (2, 4) else [59, 60, 61, 62, 87, 88]) if (q or small) else ([16, 17, 18, 32, 33, 34, 48, 49, 64, 65, 66] if kind in (2, 4) else list(range(56, 70)) + list(range(84, 92)))
            for f in ff:
                for path in ((0, 1, 2) if q else (0, 1, 2, 3, 5)):
                    if kind == 3 and sk in (3, 4): continue
                    add('fill.s%d.k%d.f%d.p%d' % (sk, kind, f, path), [path, 1, sk, f, kind, 3 if q else 4],
                        'skeleton %d + %d filler bytes (%s) + %d symbolic bytes, path #%d' % (sk, f, KN[kind], 3 if q else 4, path))
    for f in ([84, 85, 86, 87, 88] if (q or small) else range(60, 100)):
        for path in (0, 1):
            add('ws2run.f%d.p%d' % (f, path), [path, 1, 5, f, 0, 3 if q else 4], '{"a" + 3 spaces + ":" + %d spaces + %d symbolic bytes (second whitespace run scanned from the cached bitmap, input ends inside the next block), path #%d' % (f, 3 if q else 4, path))
    return J


def main(tier, seed, t0, only=None):
    J = jobs(tier)
    if only: J = [j for j in J if re.search(only, j.name)]
    res = runner.run_jobs(J)
    return runner.finish('C11', tier, seed, res, 'model_checking',
                         'bounded symbolic execution (llsym/z3) of GetOnDemand on an exact-size input object with arbitrary bytes',
                         ASSUME, t0, prop_filter=lambda v: v['kind'] != 'property' or v['msg'].startswith('C11'))
