import re, runner
from runner import Job

ASSUME = ['clang-14 -O1 lowering preserves semantics; llsym implements the IR semantics it uses',
          'reference un-escaper harness/ref_json.h::parse_string is the specification (RFC 8259 section 7)',
          'buffer layout as Document::Parse builds it: literal bytes, sentinel x"x, never-written padding, object size N+64']


def jobs(tier):
    q = tier == 'quick'
    J = []
    for cfg in ('haswell', 'westmere'):
        def add(name, params, bound, nproc=1, **kw):
            J.append(Job('C05.%s.%s' % (cfg, name), 'harness/c_str.cpp', '@h_str', params, config=cfg, nproc=nproc, bound=bound, timeout=3000, **kw))
        nfree = 5 if q else 11
        for n in range(0, nfree + 1):
            add('free%d' % n, [n, n + 1, 0], 'every literal body of %d bytes, all contents' % n, nproc=(1 if n <= 6 else 16))
        # one backslash anywhere across two AVX2 blocks / four SSE blocks
        for n in ([12] if q else list(range(12, 71))):
            add('bs1.n%d' % n, [n, 1, 0], 'every literal body of %d bytes with at most one backslash (position and all byte values symbolic)' % n, nproc=16)
        # escape first, plain bytes across the block edges, two unrestricted bytes at the end (copying phase of the decoder)
        for n in ([33, 40, 66] if q else list(range(8, 100))):
            add('escfirst.n%d' % n, [n, 1, 0, 1], 'literal body of %d bytes: backslash + any escape (all values symbolic), plain symbolic bytes, last two bytes unrestricted except backslash' % n, nproc=8)
        # two backslashes: surrogate pairs and back-to-back escapes
        for n in ([] if q else list(range(12, 25))):
            add('bs2.n%d' % n, [n, 2, 0], 'every literal body of %d bytes with at most two backslashes (positions and all byte values symbolic)' % n, nproc=16)
        # long plain prefix then an unrestricted tail of 13 bytes (covers \\uD8xx\\uDCxx crossing a block edge)
        # long plain prefix then an unrestricted tail (a \\uD8xx\\uDCxx pair needs 12 bytes; 9 covers one \\uXXXX plus neighbours across the block edge)
        for k in ([] if q else [14, 15, 16, 20, 28, 29, 30, 31, 32, 46, 47, 48, 52]):
            add('pre%d.tail9' % k, [k + 9, k + 10, k], '%d plain symbolic bytes then 9 unrestricted bytes' % k, nproc=16)
    return J


def main(tier, seed, t0, only=None):
    J = jobs(tier)
    if only: J = [j for j in J if re.search(only, j.name)]
    res = runner.run_jobs(J)
    return runner.finish('C05', tier, seed, res, 'model_checking',
                         'bounded symbolic execution (llsym/z3) of parseStringInplace (AVX2 and SSE instantiations) against a reference un-escaper',
                         ASSUME, t0)
