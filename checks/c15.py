import re, runner, parsefam, c11

ASSUME = parsefam.ASSUME[:4] + [
    'configurations are compared through a common reference: every configuration is executed symbolically on the same bounded input sets and each must agree with the same RFC 8259 reference recogniser / value walk / slice checks, hence they agree with each other on those sets (accept/reject, document, slice); serialised bytes: C09 runs the Quote kernel in all four kernel configurations against one reference',
    'configurations encoded: static haswell (AVX2) and static westmere (SSE4.2+PCLMUL), each with the production and the sanitizer code path (-D__SANITIZE_ADDRESS__)',
    'NOT encoded: the runtime-dispatch build (-DSONIC_DYNAMIC_DISPATCH). clang-14, the only IR front end here, cannot build that configuration of this library (link fails with undefined simd256/simd128 constructors at every optimisation level; only g++ builds it), so its one-line forwarders in x86_ifuncs/*.h are outside the claim',
    'error code/offset inside a malformed string literal is not compared across configurations (the property allows it); acceptance, null-ness and offset bounds are']


def jobs(tier):
    q = tier == 'quick'; J = []
    cfgs = [('westmere', (), '.sse'), ('haswell', ('__SANITIZE_ADDRESS__',), '.avx2-san'), ('westmere', ('__SANITIZE_ADDRESS__',), '.sse-san')]
    for cfg, defs, tg in cfgs:
        main = (tg == '.sse')
        J += parsefam.jobs('C15', 5, tier, defines=defs, want=(('free', 'str') if q else ('free', 'str', 'ws')) if main else ('free',), nmax=(3 if q else 6) if main else (2 if q else 5), config=cfg, tagx=tg)
        # on-demand: mode 3 = agreement with full parse + pointer lookup on valid texts (the common reference), all byte strings in mode 1
        for j in c11.jobs(tier, pid='C15' + tg + '.od', mode=1, config=cfg, defines=defs, nmax=(4 if q else 7) if main else (3 if q else 6), small=True):
            if re.search(r'free\d+\.p(0|1|2|5|12)$', j.name): J.append(j)
        for j in c11.jobs(tier, pid='C15' + tg + '.odv', mode=3, config=cfg, defines=defs, nmax=0, small=True):
            if re.search(r'fill\.s\d\.k(1|2|4)\.f\d+\.p(0|2)$', j.name) and (main or re.search(r'\.f(17|33)\.', j.name)): J.append(j)
    return J


def main(tier, seed, t0, only=None):
    J = jobs(tier)
    if only: J = [j for j in J if re.search(only, j.name)]
    res = runner.run_jobs(J)
    return runner.finish('C15', tier, seed, res, 'model_checking',
                         'bounded symbolic execution (llsym/z3) of Parse and GetOnDemand in each static x86 configuration x code path against one common reference (equivalence through the reference)',
                         ASSUME, t0)
