import runner, parsefam


def main(tier, seed, t0, only=None):
    import re
    J = parsefam.jobs('C01', 1, tier, want=('free', 'ws', 'ws2', 'str', 'nest'))
    if only: J = [j for j in J if re.search(only, j.name)]
    res = runner.run_jobs(J)
    return runner.finish('C01', tier, seed, res, 'model_checking',
                         'bounded symbolic execution (llsym/z3) of Document::Parse against an RFC 8259 reference recogniser',
                         parsefam.ASSUME, t0, prop_filter=lambda v: v['msg'].startswith('C01'))
