import re, runner, mergefam


def main(tier, seed, t0, only=None):
    q = tier == 'quick'
    QP = [(0, 0), (0, 2), (1, 0), (1, 1), (1, 5), (1, 9), (1, 11), (1, 15), (2, 0), (2, 5), (2, 6), (2, 7), (2, 11), (3, 8), (4, 10), (5, 1), (5, 5), (12, 1), (12, 14), (13, 9), (13, 13), (16, 17), (17, 16), (19, 20), (20, 19), (21, 22), (22, 21)]
    pairs = QP if q else mergefam.PAIRS19 + [(3, 3), (10, 10), (4, 4), (16, 17), (16, 16), (17, 16), (17, 17), (3, 18), (18, 18), (18, 3), (19, 20), (20, 19)]
    J = mergefam.jobs('C19', 19, tier, pairs=pairs, twice=1)
    J += mergefam.jobs('C19', 19, tier, pairs=[(24, 23), (1, 8), (2, 14)] if not q else [(24, 23), (1, 8)], twice=2, tagx='.then-other-text')
    J += mergefam.jobs('C19', 19, tier, defines=('ALLOC_SIMPLE',), pairs=[(1, 1), (2, 7), (2, 0), (0, 2), (5, 5), (2, 5)] if q else [(1, 1), (2, 7), (2, 0), (0, 2), (5, 5), (13, 13), (2, 11), (1, 12), (2, 5), (12, 14), (3, 15)], twice=0)
    J += mergefam.jobs('C19', 19, tier, defines=('ALLOC_SIMPLE',), pairs=[(24, 23), (1, 8)], twice=3, tagx='.swap')
    J += mergefam.jobs('C19', 19, tier, pairs=[(24, 23)], twice=3, tagx='.swap')
    for j in mergefam.jobs('C19', 19, tier, defines=('ALLOC_SIMPLE',), pairs=[(1, 1), (2, 7)], twice=1):
        j.name += '.twice'; J.append(j)
    if only: J = [j for j in J if re.search(only, j.name)]
    res = runner.run_jobs(J)
    return runner.finish('C19', tier, seed, res, 'model_checking',
                         'bounded symbolic execution (llsym/z3) of Document::ParseSchema (applied twice) on skeleton texts with symbolic slots vs the schema merge of the property; memory oracle and heap ledger with the freeing allocator',
                         mergefam.ASSUME + ['existing non-empty object vs an EMPTY object in the text: the statement is silent; the model follows the library (unchanged)'], t0,
                         prop_filter=lambda v: v['kind'] != 'property' or v['msg'].startswith('C19') or v['msg'].startswith('C13'))
