import re, runner, mergefam


def main(tier, seed, t0, only=None):
    q = tier == 'quick'
    pairs = [p for p in mergefam.PAIRS19 if not (p[0] in (3, 12) and p[1] in (8, 10, 12, 13))] if q else mergefam.PAIRS19 + [(3, 3), (10, 10), (4, 4)]
    J = mergefam.jobs('C19', 19, tier, pairs=pairs, twice=1)
    J += mergefam.jobs('C19', 19, tier, defines=('ALLOC_SIMPLE',), pairs=[(1, 1), (2, 7), (2, 0), (0, 2), (5, 5), (13, 13), (2, 11), (1, 12)], twice=1)
    if only: J = [j for j in J if re.search(only, j.name)]
    res = runner.run_jobs(J)
    return runner.finish('C19', tier, seed, res, 'model_checking',
                         'bounded symbolic execution (llsym/z3) of Document::ParseSchema (applied twice) on skeleton texts with symbolic slots vs the schema merge of the property; memory oracle and heap ledger with the freeing allocator',
                         mergefam.ASSUME + ['existing non-empty object vs an EMPTY object in the text: the statement is silent; the model follows the library (unchanged)'], t0,
                         prop_filter=lambda v: v['kind'] != 'property' or v['msg'].startswith('C19') or v['msg'].startswith('C13'))
