import re, runner, parsefam


def main(tier, seed, t0, only=None):
    q = tier == 'quick'
    J = parsefam.jobs('C02', 2, tier, want=('free', 'nest', 'str'), nmax=(4 if q else 6))
    J += parsefam.jobs('C02', 2, tier, defines=('ALLOC_SIMPLE',), want=('free', 'nest', 'str', 'wide'), nmax=(4 if q else 6))
    if only: J = [j for j in J if re.search(only, j.name)]
    res = runner.run_jobs(J)
    return runner.finish('C02', tier, seed, res, 'model_checking',
                         'bounded symbolic execution (llsym/z3) of Document::Parse with an exact-object memory model and heap ledger',
                         parsefam.ASSUME + ['memory oracle: every object has exactly the size the real caller provides; never-written bytes are tracked and a decision that depends on one is a violation; heap ledger counts malloc/new vs free/delete'],
                         t0, prop_filter=lambda v: v['kind'] != 'property' or v['msg'].startswith('C02'))
