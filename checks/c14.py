import re, runner
from runner import Job

ASSUME = ['clang-14 -O1 lowering preserves semantics; llsym implements the IR semantics it uses (incl. the bzhi inline asm and AVX2 compare/movemask)',
          'operands are objects of exactly `len` bytes; in the production path the rest of their page (at most 64 bytes) is readable foreign memory whose contents are unconstrained and must not influence the result; the next page is unmapped',
          'in the sanitizer path (-D__SANITIZE_ADDRESS__ (what an ASan build defines; selects SONIC_USE_SANITIZE in every header)) nothing beyond the operands is readable']


def jobs(tier):
    q = tier == 'quick'; J = []
    DS = {0: '{0,1,2,15,16,17,31,32,33,far}', 1: '0..34 and far', 2: '{0,1,16,31,32,far}', 3: 'far only (placement is irrelevant when nothing beyond the operands is read)'}
    for cfg, defs, noslack, tag in (('haswell', (), 0, 'prod'), ('haswell', ('__SANITIZE_ADDRESS__',), 1, 'san'), ('westmere', (), 1, 'sse')):
        if q:
            chunks = [(0, 7), (8, 15), (16, 23), (24, 31), (32, 35), (36, 40), (63, 66), (95, 100)] if tag == 'prod' else [(0, 33), (63, 66), (95, 100)]
            alld = 2 if tag == 'prod' else 3
        else:
            chunks = [(lo, min(160, lo + 3)) for lo in range(0, 161, 4)]
            alld = 1 if tag == 'prod' else 0
        for mode in (0, 1):
            for lo, hi in chunks:
                J.append(Job('C14.%s.%s.len%d-%d' % (tag, 'cmp' if mode else 'eq', lo, hi), 'harness/c_memcmp.cpp', '@h_memcmp', [lo, hi, alld, mode, noslack],
                             config=cfg, defines=defs, nproc=2 if q else 1, timeout=3000, max_paths=2000000,
                             bound='%s, every length %d..%d, all contents of both operands, page-end distances %s for each operand' % (
                                 'InlinedMemcmp' if mode else 'InlinedMemcmpEq', lo, hi, DS[alld])))
    return J


def main(tier, seed, t0, only=None):
    J = jobs(tier)
    if only: J = [j for j in J if re.search(only, j.name)]
    res = runner.run_jobs(J)
    return runner.finish('C14', tier, seed, res, 'model_checking',
                         'bounded symbolic execution (llsym/z3) of InlinedMemcmpEq/InlinedMemcmp (AVX2 production path, sanitizer path, SSE) against bytewise comparison, operands placed at every listed distance from an unmapped page',
                         ASSUME, t0)
