import re, runner, c11
from runner import Job

ASSUME = c11.ASSUME + ['texts are restricted to those the RFC 8259 reference recogniser accepts (assumption placed before the code under test)',
                       'number back ends stubbed on non-pinned paths as in C01 (values compared by an ordered structural walk in the harness: kinds, sizes, names, string bytes, number kind and payload bits)']


def jobs(tier):
    q = tier == 'quick'; J = []
    def add(name, params, bound, nproc=1):
        J.append(Job('C10.%s' % name, 'harness/c_ondemand.cpp', '@h_ondemand', [3] + params, keep=['parseFloatingFast', 'ParseFloatingNormalFast', 'parseFloatEiselLemire64', 'AtofNative'],
                     stubs='stubs_number', nproc=nproc, bound=bound, timeout=3400, max_paths=3000000))
    N = 4 if q else 6
    for n in range(1, N + 1):
        add('free%d' % n, [-1, 0, n], 'every valid JSON text of length %d x all 14 paths' % n, nproc=4 if n < 5 else 16)
    for arr in (0, 1):
        for esc in ((0, 1) if not arr else (0,)):
            if esc: add('tmpl.a0.e1.pad40', [-1, 2, 0, 1, 1, 40], '{"\\u0061":V,"b":W,"a":X,"zz":"<40 bytes>"} with 1-byte symbolic values x all 14 paths (escaped key followed by more than 32 bytes of text)', nproc=8)
            add('tmpl.a%d.e%d' % (arr, esc), [-1, 2, arr, esc, 1 if q else 0], ('[V,W,X]' if arr else '{"a":V,"b":W,"a":X}' + (' with key a spelled \\u0061' if esc else '')) + ' with %s symbolic values x all 14 paths' % ('1-byte' if q else '2-byte'), nproc=8)
    fills = [31, 64] if q else list(range(28, 37)) + list(range(60, 69))
    KN = {0: 'spaces', 1: 'string content with brackets', 2: 'string content ending in an escaped quote (backslash on the last byte of a 16/32/64-byte block)', 4: 'the same followed by 20 more bytes of the string'}
    for sk in ((1, 2, 3) if q else range(5)):
        for kind in (0, 1, 2, 4):
            for f in (fills if kind < 2 else ([17, 33, 64, 65] if q else [16, 17, 18, 32, 33, 34, 63, 64, 65, 66, 67, 129])):
                add('fill.s%d.k%d.f%d' % (sk, kind, f), [-1, 1, sk, f, kind, 3 if q else 4],
                    'skeleton %d + %d filler bytes (%s) + %d symbolic bytes completing a valid text x all 14 paths' % (sk, f, KN[kind], 3 if q else 4), nproc=2)
    return J


def main(tier, seed, t0, only=None):
    J = jobs(tier)
    if only: J = [j for j in J if re.search(only, j.name)]
    res = runner.run_jobs(J)
    return runner.finish('C10', tier, seed, res, 'model_checking',
                         'bounded symbolic execution (llsym/z3): GetOnDemand and ParseOnDemand vs Document::Parse + AtPointer on the same symbolic valid text',
                         ASSUME, t0, prop_filter=lambda v: v['kind'] != 'property' or v['msg'].startswith('C10') or v['msg'].startswith('C11'))
