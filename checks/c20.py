import re, runner, mergefam


def main(tier, seed, t0, only=None):
    q = tier == 'quick'
    pairs = [p for p in mergefam.PAIRS20 if not (p[0] in (3, 12) and p[1] in (8, 12, 13))] if q else mergefam.PAIRS20 + [(3, 3), (3, 10), (10, 8)]
    J = mergefam.jobs('C20', 20, tier, pairs=pairs)
    if only: J = [j for j in J if re.search(only, j.name)]
    res = runner.run_jobs(J)
    return runner.finish('C20', tier, seed, res, 'model_checking',
                         'bounded symbolic execution (llsym/z3) of UpdateLazy on skeleton texts with symbolic slots; the result text is parsed by the real parser and compared with the recursive merge of the property',
                         mergefam.ASSUME, t0, prop_filter=lambda v: v['kind'] != 'property' or v['msg'].startswith('C20'))
