import re, runner, mergefam


def main(tier, seed, t0, only=None):
    q = tier == 'quick'
    QP = [(0, 0), (0, 2), (1, 0), (1, 1), (1, 5), (1, 9), (1, 11), (2, 2), (2, 6), (2, 7), (2, 14), (3, 8), (5, 5), (11, 2), (12, 12), (13, 9), (13, 13), (2, 0)]
    pairs = QP if q else mergefam.PAIRS20 + [(3, 3), (3, 10), (10, 8)]
    J = mergefam.jobs('C20', 20, tier, pairs=pairs)
    if only: J = [j for j in J if re.search(only, j.name)]
    res = runner.run_jobs(J)
    return runner.finish('C20', tier, seed, res, 'model_checking',
                         'bounded symbolic execution (llsym/z3) of UpdateLazy on skeleton texts with symbolic slots; the result text is parsed by the real parser and compared with the recursive merge of the property',
                         mergefam.ASSUME, t0, prop_filter=lambda v: v['kind'] != 'property' or v['msg'].startswith('C20'))
