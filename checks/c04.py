import re, random, runner
from runner import Job
from fractions import Fraction

ASSUME = ['clang-14 -O1 lowering preserves semantics; ll2c translation validated every run against the real kernel (2000 seeded vectors per job)',
          'oracle: exact wide-integer comparison (bit-vector width 260 + 3.33*|e|, enough for man*10^|e| shifted to the binary point) |man*10^e - m*2^q| <= half ulp, ties to even (lib/job_cbmc.py GLUE); replay oracle: glibc strtod',
          'claim is per (kernel, decimal exponent, window of 2^W consecutive mantissas); mantissas outside the listed windows and the composed text->number front end beyond the listed number texts are not claimed (full-width proof measured out of reach, DESIGN.md C04)',
          'hardware double multiply/divide in parseFloatingFast is executed concretely (IEEE-754 semantics of the host / python floats) in the number-text family']


def midpoint_base(e, W, rnd):
    """a mantissa base whose window contains the decimal neighbours of an exact halfway point between two adjacent doubles"""
    for _ in range(200):
        m2 = rnd.randrange(1 << 52, 1 << 53)
        # choose q so that (m2 + 1/2) * 2^q / 10^e lands in [2^63, 2^64)
        h = Fraction(2 * m2 + 1, 2)
        t = h / (Fraction(10) ** e)
        # t * 2^q in [2^63, 2^64)
        import math
        q = 63 - (t.numerator.bit_length() - t.denominator.bit_length())
        for dq in (-1, 0, 1):
            v = t * (Fraction(2) ** (q + dq))
            if (1 << 63) <= v < (1 << 64):
                man = int(v)
                return max(1, man - (1 << (W - 1)))
    return 1 << 63


def jobs(tier, seed):
    q = tier == 'quick'; rnd = random.Random(seed); J = []
    W = 16
    rows_el = sorted(set([-342, -325, -308, -307, -200, -100, -23, -22, -1, 0, 1, 10, 22, 23, 27] + [rnd.randrange(-300, 28) for _ in range(3)])) if q else list(range(-342, 41))
    rows_pf = sorted(set([-306, -200, -100, -23, -1, 0, 1, 22, 27] + [rnd.randrange(-300, 28) for _ in range(2)])) if q else list(range(-306, 41))
    for kern, rows, name in ((0, rows_el, 'el64'), (1, rows_pf, 'pfnf')):
        for e in rows:
            wins = [((1 << 63), 'at 2^63'), (midpoint_base(e, W, rnd), 'around the decimal neighbours of a seeded double midpoint')]
            if not q: wins += [((1 << 64) - (1 << W), 'top of the 64-bit range')]
            for base, desc in wins:
                # binary exponents (bits 52.. minus 1075) of the correctly rounded results at both ends of the window
                def e2_of(man):
                    v = Fraction(man) * (Fraction(10) ** e)
                    q = v.numerator.bit_length() - v.denominator.bit_length()      # 2^(q-1) <= v < 2^(q+1)
                    if v < Fraction(2) ** q: q -= 1
                    return q - 52
                lo_e2 = e2_of(max(1, base)); hi_e2 = e2_of(base + (1 << W) - 1)
                cands = sorted(set([lo_e2, hi_e2, hi_e2 + 1]))[:2] if lo_e2 != hi_e2 else [lo_e2, lo_e2 + 1]
                J.append(Job('C04.%s.e%d.b%d' % (name, e, base), 'harness/c_atof.cpp', '@h_atof', [kern, e & 0xffffffff, base, W, 0, 0, cands[0] & 0xffffffff, cands[1] & 0xffffffff], engine='cbmc', timeout=3000,
                             bound='%s, decimal exponent %d, all %d mantissas base=%d + delta (%s)' % ('AtofEiselLemire64' if kern == 0 else 'ParseFloatingNormalFast', e, 1 << W, base, desc),
                             extra=dict(bigw=260 + int(3.33 * abs(e)) + 1, unwind=352, input_names=[('int', 'delta')], cbmc_timeout=2400, seed=seed, witness_param=5, witness_optional=True, validate_vectors=2000)))
    for t in range(40):
        J.append(Job('C04.text.t%d' % t, 'harness/c_numtext.cpp', '@h_numtext', [t], nproc=2, max_paths=100000, max_steps=20000000,
                     bound=('Document::Parse on number-text template #%d (harness/c_numtext.cpp kTmpl), every value of its symbolic digits' % t) if t < 38 else 'Document::Parse on D%s.ddd…dD: every fraction length 1..20 (one per case of the vector digit reader), first and last digit symbolic' % ('' if t == 38 else '234')))
    J.append(Job('C04.table.kPow10M128Tab', 'harness/c_atof.cpp', '@h_atof', [], engine='ground', bound='rows 10^-348..10^347 of kPow10M128Tab = floor(10^k * 2^(127 - floor(log2 10^k))), read from the IR',
                 extra=dict(symbol='kPow10M128Tab', k0=-348, kmax=347, formula='floor_lo_hi', what='C04: kPow10M128Tab table')))
    return J


def main(tier, seed, t0, only=None):
    J = jobs(tier, seed)
    if only: J = [j for j in J if re.search(only, j.name)]
    res = runner.run_jobs(J)
    return runner.finish('C04', tier, seed, res, 'model_checking',
                         'bounded model checking (CBMC on C translated from the real LLVM IR) of AtofEiselLemire64 / ParseFloatingNormalFast per exponent and mantissa window with an exact wide-integer rounding oracle',
                         ASSUME, t0)
