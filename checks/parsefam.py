"""Job families over harness/c_parse.cpp, shared by C01 / C02 / C03 (same executions, different assertions)."""
from runner import Job

KEEP = ['parseFloatingFast', 'ParseFloatingNormalFast', 'parseFloatEiselLemire64', 'AtofNative']
SRC = 'harness/c_parse.cpp'


def jobs(pid, mode, tier, defines=(), want=('free', 'ws', 'str', 'nest', 'wide'), nmax=None, config='haswell', tagx=''):
    J = []
    tag = pid + ('.simple' if 'ALLOC_SIMPLE' in defines else '') + tagx
    def add(name, params, bound, nproc=1, **kw):
        J.append(Job('%s.%s' % (tag, name), SRC, '@h_parse', [mode] + params, defines=defines, config=config, keep=KEEP, stubs='stubs_number', nproc=nproc,
                     bound=bound, **kw))
    q = (tier == 'quick')
    N = nmax if nmax is not None else (5 if q else 7)
    if 'free' in want:
        for n in range(0, N + 1):
            add('free%d' % n, [0, n], 'every byte string of length %d' % n, nproc=(1 if n <= 3 else 16), timeout=3000)
    if 'ws' in want:
        ks = [1, 33, 64] if q else [1, 2, 29, 30, 31, 32, 33, 34, 35, 61, 62, 63, 64, 65, 66, 67, 127, 128, 129, 130]
        m = 3 if q else 4
        for k in ks:
            for g in (range(0, m + 1) if (not q or k == 1) else (1, 2)):
                add('ws.m%d.k%d.g%d' % (m, k, g), [1, m, k, g], '%d symbolic whitespace bytes inserted at position %d of every %d-byte text' % (k, g, m),
                    nproc=2 if q else 4)
    if 'ws2' in want:
        pairs = [(1, 2), (2, 2)]
        if not q: pairs = [(a, b) for a in (0, 1, 2, 3) for b in (1, 2, 3)] + [(a, b) for a in (2, 5, 30, 58, 59, 60, 61, 62, 63, 64, 65) for b in (2, 3, 4, 5, 31, 62)]
        for a, b in pairs:
            add('ws2.a%d.b%d' % (a, b), [5, a, b], "'[' + %d whitespace bytes + 2 symbolic bytes + ',' + %d whitespace bytes + 2 symbolic bytes + ']' (whitespace bytes symbolic)" % (a, b), nproc=2)
    if 'str' in want:
        ks = [0, 13, 14, 15, 16, 29, 30, 31, 32, 33, 61, 62, 63, 64] if q else list(range(0, 68))
        for k in ks:
            for lead in ([0] if q else [0, 3]):
                add('str.k%d.t3.l%d' % (k, lead), [2, k, 3, lead], 'quote + %d plain symbolic bytes + 3 unrestricted bytes, %d leading spaces' % (k, lead))
    if 'nest' in want:
        ks = [1, 2, 15, 16, 17, 40] if q else [1, 2, 3, 7, 8, 9, 15, 16, 17, 31, 32, 33, 40]
        for k in ks:
            for m_ in sorted(set([0, max(0, k - 1), k, k + 1])):
                for obj in (0, 1):
                    add('nest.k%d.m%d.o%d' % (k, m_, obj), [3, k, 2 if q else 3, m_, obj],
                        '%d opening brackets%s, %d symbolic bytes, %d closing brackets' % (k, ' (alternating array/object)' if obj else '', 2 if q else 3, m_))
    if 'wide' in want:
        ks = [0, 1, 2, 3, 4, 7, 8, 9, 15, 16, 17, 31, 32, 33]
        for k in ks:
            for obj in (0, 1):
                for nest in ((0,) if q else (0, 1)):
                    add('wide.k%d.o%d.n%d' % (k, obj, nest), [4, k, obj, nest], '%s of %d single non-zero-digit children (first, 16th, 17th, last symbolic)%s' % ('object' if obj else 'array', k, ', nested' if nest else ''))
    return J


ASSUME = [
    'clang-14 -O1 lowering of the headers to LLVM IR preserves source semantics; llsym implements the IR semantics it uses',
    'allocation never fails (malloc/new always return a fresh block)',
    'text->double back ends (parseFloatingFast, ParseFloatingNormalFast, parseFloatEiselLemire64) are replaced by an unconstrained finite double on paths where mantissa/exponent are not pinned to one value; on those paths decimal exponents outside (-400, 280) are dropped (outside the claim); their numeric result is C04\'s subject',
    'reference recogniser/decoder in harness/ref_json.h is the specification (RFC 8259)',
    'static haswell configuration (AVX2) unless the job name says otherwise; sanitizer code path not selected',
]
