import re, runner
from runner import Job

ASSUME = ['clang-14 -O1 lowering preserves semantics; llsym implements the IR semantics it uses',
          'METHOD: this is not an exploration of thread interleavings. Each scenario is executed symbolically on ONE thread and the engine records every memory access; the verdict is a lockset / write-set discipline that is a sufficient condition for data-race freedom of any number of threads performing only the listed operations: (1) read-only operations perform no write to memory that existed before them (only to their own stack, their own fresh heap blocks and thread_local objects); (2) with -DSONIC_LOCKED_ALLOCATOR every write to the pool metadata (SharedData, chunk headers) happens with the spin lock held and no metadata field that is written under the lock is read without it; (3) operations on a thread\'s own documents write no global object',
          'std::atomic<bool>::exchange(true, acquire) returning false is the lock acquisition and the release store of false its release; their hardware semantics are trusted',
          'one-time initialisation of function-local statics is performed once before tracking (it is serialised by the C++ runtime guard)',
          'negative controls: the unlocked build must be reported as violating (2)']


def main(tier, seed, t0, only=None):
    q = tier == 'quick'
    S = 'harness/c_race.cpp'; J = []
    for mp in (0, 1):
        J.append(Job('C17.readers.map%d' % mp, S, '@h_race', [1, mp], defines=('__SANITIZE_ADDRESS__',), bound='read-only API on a shared parsed document (%s lookup map), looked-up key in {a,b,c,missing,empty}' % ('with' if mp else 'without')))
    J.append(Job('C17.readers.prod', S, '@h_race', [1, 0], bound='same, production code path'))
    J.append(Job('C17.own-documents', S, '@h_race', [3, 0], defines=('__SANITIZE_ADDRESS__',), bound='Parse + mutate + CopyFrom + Serialize + failed Parse on a thread\'s own documents'))
    for steps in ((1, 2) if q else (1, 2, 3)):
        J.append(Job('C17.locked-pool.s%d' % steps, S, '@h_race', [2, steps], defines=('SONIC_LOCKED_ALLOCATOR',), max_paths=2000000,
                     bound='%d Malloc/Realloc call(s) with symbolic sizes 0..100 from an arbitrary head-chunk fill, locked build' % steps))
    J.append(Job('C17.unlocked-pool.control', S, '@h_race', [2, 1], extra=dict(expect_violation=True), stop_on_first=True,
                 bound='negative control: the same scenario without -DSONIC_LOCKED_ALLOCATOR must violate the lock discipline'))
    if only: J = [j for j in J if re.search(only, j.name)]
    res = runner.run_jobs(J)
    return runner.finish('C17', tier, seed, res, 'other',
                         'symbolic execution (llsym/z3) with write-set / lockset tracking: a sufficient condition for data-race freedom decided over all paths of the operations; counterexamples replayed with two real threads under ThreadSanitizer',
                         ASSUME, t0, explanation='Lockset/write-set discipline over symbolic single-thread executions (all paths, symbolic sizes/keys); not an interleaving exploration - see assumptions. No installed solver-based engine handles C++11 atomics with shared-pointer dereference (CBMC rejects it), hence a discipline check instead of schedule enumeration.')
