import re, random, runner
from runner import Job

ASSUME = ['clang-14 -O1 lowering preserves semantics; ll2c translates the IR it is given faithfully (validated every run: generated C vs the real function on 2000 seeded vectors per job)',
          'CBMC 6.11 bit-precise semantics of C; C models of the x86 intrinsics in lib/ll_intrinsics.h',
          'claim is per window: every value v = base + delta, delta < 2^W; values outside the listed windows are not claimed (full-width query measured out of reach, DESIGN.md C08)']


def windows(tier, seed):
    W = 16 if tier == 'quick' else 20
    half = 1 << (W - 1)
    rnd = random.Random(seed)
    out = []
    out.append((0, 0, 'values 0 .. 2^%d' % W))
    for k in range(1, 20):
        out.append((10 ** k - half, 0, 'both sides of 10^%d' % k))
    out.append(((1 << 64) - (1 << W), 0, 'top of uint64'))
    # each 8-digit group sweeping around its own boundaries while the others hold seeded values
    for grp in range(3):
        for pivot in (0, 9999, 10000, 99999999):
            others = [rnd.randrange(10 ** 7, 10 ** 8) for _ in range(3)]
            if grp == 2: others[2] = rnd.randrange(1, 1844)
            vals = list(others)
            lo = max(0, pivot - half) if pivot else 0
            vals[grp] = lo
            if grp == 2: vals[2] = min(vals[2], 1843)
            base = vals[0] + vals[1] * 10 ** 8 + vals[2] * 10 ** 16
            if base + (1 << W) < (1 << 64):
                out.append((base, 0, 'digit group %d sweeping around %d, other groups seeded' % (grp, pivot)))
    for hi in (1, 1843, rnd.randrange(2, 1843)):
        for mid in (1, 99999999, rnd.randrange(2, 99999999)):
            out.append((hi * 10 ** 16 + mid * 10 ** 8 - half, 0, 'around a 17-20 digit value whose low 8 digits are zero (the /10^8 split of the low 16 digits)'))
    for i in range(4 if tier == 'quick' else 16):
        out.append((rnd.randrange(0, (1 << 64) - (1 << W)), 0, 'seeded pivot'))
    # signed entry
    out.append(((1 << 63) - half, 1, 'signed: around INT64_MIN / INT64_MAX'))
    out.append(((1 << 64) - half, 1, 'signed: around 0 (negative and non-negative)'))
    for k in (1, 2, 8, 9, 16, 17, 18):
        out.append((((1 << 64) - 10 ** k - half) & ((1 << 64) - 1), 1, 'signed: both sides of -10^%d' % k))
    for i in range(2 if tier == 'quick' else 8):
        out.append((rnd.randrange(1 << 63, 1 << 64), 1, 'signed: seeded negative pivot'))
    return W, out


def main(tier, seed, t0, only=None):
    W, wins = windows(tier, seed)
    J = []
    for i, (base, sg, desc) in enumerate(wins):
        J.append(Job('C08.w%02d.%s%d' % (i, 'i' if sg else 'u', base), 'harness/c_itoa.cpp', '@h_itoa', [base, W, sg], engine='cbmc', nproc=1,
                     bound='%s: all %d values base=%d + delta, delta < 2^%d (%s)' % ('I64toa' if sg else 'U64toa', 1 << W, base, W, desc), timeout=2400,
                     extra=dict(unwind=22, input_names=[('int', 'delta')], cbmc_timeout=1800, seed=seed)))
    if only: J = [j for j in J if re.search(only, j.name)]
    res = runner.run_jobs(J)
    return runner.finish('C08', tier, seed, res, 'model_checking',
                         'bounded model checking (CBMC on C translated from the real LLVM IR of U64toa/I64toa) per value window, 128-bit Horner oracle',
                         ASSUME, t0)
