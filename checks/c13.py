import re, runner, domfam
from runner import Job


def main(tier, seed, t0, only=None):
    q = tier == 'quick'
    plan = [(1, 3, 0, 0, 2), (1, 3, 0, 1, 2), (1, 3, 0, 3, 2), (1, 3, 0, 2, 2), (2, 0, 0, 0, 16), (2, 1, 0, 0, 8), (2, 2, 0, 0, 16), (1, 3, 17, 0, 2)]
    if not q: plan += [(2, 0, 0, 3, 16), (2, 0, 0, 2, 16), (2, 2, 0, 1, 16), (3, 0, 0, 0, 16), (3, 2, 0, 0, 16), (2, 3, 0, 0, 16), (2, 3, 0, 1, 16), (2, 0, 17, 0, 16)]
    J = domfam.jobs('C13', 3, tier, defines=('ALLOC_SIMPLE',), plan=plan)
    # reparse histories (valid and invalid text, reuse, destroy) with the freeing allocator: the C02 executions with the heap ledger
    import parsefam
    J += parsefam.jobs('C13', 2, tier, defines=('ALLOC_SIMPLE',), want=('free', 'nest'), nmax=(4 if q else 5))
    import mergefam
    J += mergefam.jobs('C13', 19, tier, defines=('ALLOC_SIMPLE',), pairs=[(24, 23), (1, 8)], twice=3, tagx='.swap-after-parseschema')
    J += mergefam.jobs('C13', 19, tier, defines=('ALLOC_SIMPLE',), pairs=[(1, 1), (2, 7), (0, 2)], twice=0, tagx='.parseschema')
    if only: J = [j for j in J if re.search(only, j.name)]
    res = runner.run_jobs(J)
    return runner.finish('C13', tier, seed, res, 'model_checking',
                         'bounded symbolic execution (llsym/z3) of DOM operation scripts and parse/reparse histories under SimpleAllocator with a heap ledger (malloc/free accounting, use-after-free, double free) and copy-independence checks',
                         domfam.ASSUME + ['heap ledger: every malloc/new block must be freed exactly once before the harness ends; access to a freed block is a violation',
                                          'ParseSchema histories (single application, and document Swap after ParseSchema with the other document destroyed first) run with the ledger; repeated ParseSchema is the known finding listed under C19; ParseOnDemand histories are covered by C10 runs'], t0,
                         prop_filter=lambda v: v['kind'] != 'property' or v['msg'].startswith('C13') or v['msg'].startswith('C12') or v['msg'].startswith('C02'))
