import re, runner, domfam


def main(tier, seed, t0, only=None):
    q = tier == 'quick'
    plan = [(1, 3, 0, 0, 2), (1, 3, 0, 1, 2), (1, 0, 0, 3, 2), (2, 0, 0, 3, 8), (2, 2, 0, 0, 16), (2, 2, 0, 1, 16), (2, 0, 0, 0, 8), (1, 2, 17, 0, 2)]
    if not q: plan += [(3, 2, 0, 0, 16), (2, 3, 0, 0, 16), (2, 3, 0, 1, 16)]
    J = domfam.jobs('C18', 4, tier, plan=plan) + domfam.jobs('C18', 4, tier, defines=('ALLOC_SIMPLE',), plan=plan[:4])
    if only: J = [j for j in J if re.search(only, j.name)]
    res = runner.run_jobs(J)
    return runner.finish('C18', tier, seed, res, 'model_checking',
                         'bounded symbolic execution (llsym/z3): operator== / != on pairs of documents built by symbolic histories vs JSON value equality on the model; reflexive/symmetric/transitive via a cross-allocator deep copy',
                         domfam.ASSUME + ['documents with duplicate keys are excluded, as the property states', 'doubles: -0.0 vs 0.0 and 1 vs 1.0 kind distinctions are checked in harness/c_eqnum.cpp jobs (if listed) - otherwise integers and strings only'], t0,
                         prop_filter=lambda v: v['kind'] != 'property' or v['msg'].startswith('C18'))
