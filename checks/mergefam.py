from runner import Job
import stubs_number

ASSUME = ['clang-14 -O1 lowering preserves semantics; llsym implements the IR semantics it uses; compiled with -D__SANITIZE_ADDRESS__ (sanitizer code path for key comparison)',
          'texts are built from 25 concrete skeletons (scalar root, one/two/nested members, arrays, permuted / undeclared / escaped keys, empty object) whose first value slot is a symbolic digit and whose other slots range over six values of every kind via symbolic selectors',
          'expected result = the merge stated by the property, computed on parsed copies with the DOM API (whose container behaviour is C12); comparison is an ordered structural walk',
          'number back ends as in C01 (pinned values run for real); std::string construction and std::multimap rebalancing modelled by their libstdc++ contracts; allocation never fails']
PAIRS19 = [(e, x) for e in (0, 1, 2, 3, 4, 5, 12, 13) for x in (0, 1, 2, 5, 6, 7, 8, 9, 10, 11, 12, 13, 14, 15)]
PAIRS20 = [(e, x) for e in (0, 1, 2, 3, 5, 11, 12, 13) for x in (0, 1, 2, 5, 6, 7, 8, 9, 11, 12, 13, 14)]


def jobs(pid, which, tier, defines=(), pairs=None, twice=0, tagx=''):
    J = []
    for (e, x) in pairs:
        heavy = (e in (3, 10, 12, 18) and x in (3, 8, 10, 12, 13, 18)) or (e in (3,) and x in (2, 6, 7)) or x == 14 or e == 14
        J.append(Job('%s%s.e%d.x%d%s' % (pid, '.simple' if 'ALLOC_SIMPLE' in defines else '', e, x, tagx), 'harness/c_merge.cpp', '@h_merge', [which, e, x, twice],
                     defines=tuple(defines) + ('__SANITIZE_ADDRESS__',), keep=stubs_number.KEEP, stubs='stubs_number', nproc=8 if heavy else 2, timeout=3400, max_paths=2000000,
                     max_steps=30000000, bound='skeleton #%d x skeleton #%d (harness/c_merge.cpp kShape), all slot values' % (e, x)))
    return J
