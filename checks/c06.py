import re, runner, domfam


def main(tier, seed, t0, only=None):
    q = tier == 'quick'
    plan = [(1, 3, 0, 0, 8), (1, 3, 0, 1, 8), (1, 0, 17, 0, 2), (1, 1, 17, 0, 2)]
    if not q: plan += [(2, 0, 0, 0, 16), (2, 2, 0, 0, 16), (2, 1, 0, 0, 16), (2, 0, 0, 1, 16)]
    J = domfam.jobs('C06', 8, tier, plan=plan)
    if only: J = [j for j in J if re.search(only, j.name)]
    res = runner.run_jobs(J)
    return runner.finish('C06', tier, seed, res, 'model_checking',
                         'bounded symbolic execution (llsym/z3): Serialize -> Parse -> == -> Serialize on documents built by symbolic operation scripts',
                         domfam.ASSUME + ['number payloads are three fixed values here (formatting of all integers/doubles is C08/C07); string bytes are the key universe (arbitrary string bytes are C09)'], t0,
                         prop_filter=lambda v: v['kind'] != 'property' or v['msg'].startswith('C06'))
