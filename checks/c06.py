import re, runner, domfam


def main(tier, seed, t0, only=None):
    q = tier == 'quick'
    plan = [(1, 3, 0, 0, 8), (1, 3, 0, 1, 8), (1, 0, 17, 0, 2), (1, 1, 17, 0, 2)]
    if not q: plan += [(2, 0, 0, 0, 16), (2, 2, 0, 0, 16), (2, 1, 0, 0, 16), (2, 0, 0, 1, 16)]
    J = domfam.jobs('C06', 8, tier, plan=plan)
    from runner import Job
    for reuse in (0, 1):
        J.append(Job('C06.nonfinite.reuse%d' % reuse, 'harness/c_ser.cpp', '@h_ser', [0, reuse], bound='every non-finite double (all 2^53 bit patterns with exponent 0x7ff, symbolic) as root / array element / member value / nested element; write buffer %s' % ('reused' if reuse else 'fresh')))
    for n in ([0, 1, 3, 8, 17] if q else [0, 1, 2, 3, 8, 15, 16, 17, 31, 32, 33, 40]):
        J.append(Job('C06.strings.n%d' % n, 'harness/c_ser.cpp', '@h_ser', [1, n], nproc=4 if n < 20 else 16, timeout=3400,
                     bound='object whose key and value are the same %d symbolic bytes (at most one needing an escape, at a symbolic position): serialise, reference recogniser, parse back, bytes equal, re-serialise identical' % n))
    capmax = 40 if q else 130
    J.append(Job('C06.smallcap', 'harness/c_ser.cpp', '@h_ser', [2, capmax, 0], nproc=16, timeout=1500,
                 bound='WriteBuffer constructed with every initial capacity 0..%d x 18 document shapes (scalar roots, empty containers, empty container as last child, nesting, strings, escapes, longest integers): exact compact text, every store inside the buffer object' % capmax))
    J.append(Job('C06.smallcap.reuse', 'harness/c_ser.cpp', '@h_ser', [2, 12 if q else 40, 1], nproc=16, timeout=3000,
                 bound='the same with the buffer cleared and reused for a second document (every ordered pair of the 18 shapes), initial capacity 0..%d' % (12 if q else 40)))
    amax = 30 if q else 90
    for cap0 in ([0] if q else [0, 1, 200]):
        J.append(Job('C06.outgrow.cap%d' % cap0, 'harness/c_ser.cpp', '@h_ser', [3, amax, cap0], nproc=16, timeout=3000,
                     bound='"[[" + a x "[]," + b x "null," + T + "]]", a = 0..%d, b = 0..4, T over 12 element kinds (longest integers and double, literals, empty containers, strings, nested): every element kind at every distance from the end of the reserved (18*Size+64 bytes) and once/twice doubled write buffer; exact text, every store inside the buffer object' % amax))
    if only: J = [j for j in J if re.search(only, j.name)]
    res = runner.run_jobs(J)
    return runner.finish('C06', tier, seed, res, 'model_checking',
                         'bounded symbolic execution (llsym/z3): Serialize -> Parse -> == -> Serialize on documents built by symbolic operation scripts',
                         domfam.ASSUME + ['number payloads are three fixed values here (formatting of all integers/doubles is C08/C07); string bytes are the key universe (arbitrary string bytes are C09)'], t0,
                         prop_filter=lambda v: v['kind'] != 'property' or v['msg'].startswith('C06'))
