import re, runner
from runner import Job

ASSUME = ['clang-14 -O1 lowering preserves semantics; llsym implements the IR semantics it uses',
          'allocation by the base allocator never fails',
          'reference model of the documented behaviour is in harness/c_pool.cpp (struct Model)',
          'request sizes are symbolic in [0, max]; the engine forks per aligned size class (8 request sizes each), so every size is covered; the tag fill writes the bytes that are certainly inside each block (aligned size - 7)',
          'histories: the first Malloc of an arbitrary size puts the head chunk into an arbitrary reachable fill state, the following steps are arbitrary Malloc/Realloc operations; longer histories are outside the claim',
          'sizes >= 2^63 (alignment arithmetic wraps) are outside the claim']


def jobs(tier):
    q = tier == 'quick'; J = []
    def add(name, params, defs, bound, nproc=16):
        J.append(Job('C16.' + name, 'harness/c_pool.cpp', '@h_pool', params, defines=defs, nproc=nproc, timeout=3400, max_paths=3000000, max_steps=20000000, bound=bound))
    for pol, defs in (('simple', ()), ('adaptive', ('POLICY_ADAPTIVE',))):
        for cap, mx in ((64, 100), (100, 130), (8, 40)):
            add('%s.cap%d.s2' % (pol, cap), [cap, 2, mx, 0, 0, 0], defs, '%s policy, chunk capacity %d, every 2-step script of Malloc/Realloc with sizes 0..%d, then copy/Clear/move/destroy' % (pol, cap, mx), nproc=4)
        add('%s.userbuf.s2' % pol, [64, 2, 100, 1, 200, 3], defs, '%s policy, user buffer of 200 bytes at misalignment 3, chunk 64, every 2-step script, sizes 0..100' % pol, nproc=4)
        add('%s.userbuf-aligned.s2' % pol, [64, 2, 100, 1, 128, 0], defs, '%s policy, aligned user buffer of 128 bytes, chunk 64, every 2-step script, sizes 0..100' % pol, nproc=4)
    for pol, defs in (('simple', ()), ('adaptive', ('POLICY_ADAPTIVE',))):
        add('%s.big.s2' % pol, [1024, 2, 100, 0, 0, 0, 1], defs, '%s policy, chunk 1024, first request in {65536, 65537, 70000, 131073} then one symbolic step, sizes 0..100' % pol, nproc=4)
    add('simple.cap64.s3', [64, 3, 100 if q else 136, 0, 0, 0], (), 'simple policy, chunk 64, every 3-step script, sizes 0..%d' % (100 if q else 136))
    if not q:
        add('adaptive.cap64.s3', [64, 3, 136, 0, 0, 0], ('POLICY_ADAPTIVE',), 'adaptive policy, chunk 64, every 3-step script, sizes 0..136')
        add('simple.userbuf.s3', [64, 3, 100, 1, 200, 3], (), 'simple policy, misaligned user buffer 200, every 3-step script, sizes 0..100')
        add('adaptive.userbuf.s3', [64, 3, 100, 1, 200, 3], ('POLICY_ADAPTIVE',), 'adaptive policy, misaligned user buffer 200, every 3-step script, sizes 0..100')
        add('simple.cap64.s4', [64, 4, 72, 0, 0, 0], (), 'simple policy, chunk 64, every 4-step script, sizes 0..72')
    return J


def main(tier, seed, t0, only=None):
    J = jobs(tier)
    if only: J = [j for j in J if re.search(only, j.name)]
    res = runner.run_jobs(J)
    return runner.finish('C16', tier, seed, res, 'model_checking',
                         'bounded symbolic execution (llsym/z3) of MemoryPoolAllocator under operation scripts with symbolic sizes, against a reference model and tag-filled blocks',
                         ASSUME, t0)
