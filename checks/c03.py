import re, runner, parsefam


def main(tier, seed, t0, only=None):
    q = tier == 'quick'
    J = parsefam.jobs('C03', 4, tier, want=('free', 'ws', 'ws2', 'wide', 'str'), nmax=(4 if q else 7))
    J += parsefam.jobs('C03', 4, tier, defines=('ALLOC_SIMPLE',), want=('wide',))
    if only: J = [j for j in J if re.search(only, j.name)]
    res = runner.run_jobs(J)
    return runner.finish('C03', tier, seed, res, 'model_checking',
                         'bounded symbolic execution (llsym/z3): the parsed document is walked through the public accessor API in lock-step with a reference reader',
                         parsefam.ASSUME + ['values of non-integer numbers are not compared here (kind only); see C04'],
                         t0, prop_filter=lambda v: v['msg'].startswith('C03'))
