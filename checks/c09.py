import re, runner
from runner import Job

ASSUME = ['clang-14 -O1 lowering preserves semantics; llsym implements the IR semantics it uses',
          'source string = object of exactly n bytes placed at each listed distance from an unmapped page; in the production path the rest of its page (<= 64 bytes) is readable foreign memory with unconstrained contents that must not influence the output; in the sanitizer path nothing beyond the string is readable',
          'destination = object of exactly 6n+32+3 bytes, as SerializeImpl reserves',
          'oracle: byte-wise walk of the output against the input per RFC 8259 section 7 (harness/c_quote.cpp)']

DSET = {0: '{0,1,15,16,17,31,32,33,63,64,65,far}', 1: '0..70 and far', 2: '{0,1,33,far}'}


def jobs(tier):
    q = tier == 'quick'; J = []
    for cfg, defs, noslack, tag in (('haswell', (), 0, 'prod'), ('haswell', ('__SANITIZE_ADDRESS__',), 1, 'san'), ('westmere', (), 0, 'sse'), ('westmere', ('__SANITIZE_ADDRESS__',), 1, 'sse-san')):
        main_cfg = tag == 'prod'
        def add(name, lo, hi, maxsp, dset, nproc=1):
            J.append(Job('C09.%s.%s' % (tag, name), 'harness/c_quote.cpp', '@h_quote', [lo, hi, maxsp, dset, noslack], config=cfg, defines=defs, nproc=nproc,
                         timeout=3400, max_paths=3000000,
                         bound='every string of length %d..%d with %s, page-end distances %s' % (lo, hi, 'all contents' if maxsp > hi else 'at most %d bytes needing an escape (positions and all byte values symbolic)' % maxsp, DSET[dset])))
        nfree = (4 if q else 6) if main_cfg else (3 if q else 5)
        add('free0-%d' % (nfree - 1), 0, nfree - 1, 99, 2 if q else 0, nproc=4)
        add('free%d' % nfree, nfree, nfree, 99, 2, nproc=16)
        if q:
            lens = [0, 1, 2, 5, 15, 16, 17, 31, 32, 33, 48, 63, 64, 65, 70] if main_cfg else [1, 16, 17, 33]
        else:
            lens = list(range(0, 71)) if main_cfg else list(range(0, 71, 3))
        for n in lens:
            add('sp1.len%d' % n, n, n, 1, (2 if q else 1) if main_cfg else 2, nproc=1 if n < 40 else 2)
        for n in ([8] if q else [8, 9, 16, 17, 31, 32, 33, 34, 40]):
            if main_cfg or n == 8: add('sp2.len%d' % n, n, n, 2, 2, nproc=8)
    return J


def main(tier, seed, t0, only=None):
    J = jobs(tier)
    if only: J = [j for j in J if re.search(only, j.name)]
    res = runner.run_jobs(J)
    return runner.finish('C09', tier, seed, res, 'model_checking',
                         'bounded symbolic execution (llsym/z3) of the Quote kernel (AVX2/SSE x production/sanitizer path) with exact-size source and destination objects at page-end placements',
                         ASSUME, t0)
