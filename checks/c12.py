import re, runner, domfam


def main(tier, seed, t0, only=None):
    q = tier == 'quick'
    plan = [(1, 3, 0, 0, 2), (1, 3, 0, 1, 2), (2, 0, 0, 0, 8), (2, 1, 0, 0, 4), (2, 2, 0, 0, 16), (2, 0, 0, 1, 8),
            (2, 0, 0, 2, 8), (2, 0, 0, 3, 8), (1, 0, 16, 0, 2), (1, 0, 17, 0, 2), (1, 0, 24, 0, 2), (1, 0, 25, 0, 2), (1, 1, 16, 0, 2), (1, 1, 24, 0, 2), (1, 1, 36, 0, 2)]
    if not q: plan += [(3, 0, 0, 0, 16), (3, 1, 0, 0, 16), (2, 3, 0, 0, 16), (2, 0, 16, 0, 16), (2, 0, 24, 0, 16), (2, 1, 16, 0, 16), (2, 2, 0, 1, 16)]
    J = domfam.jobs('C12', 1, tier, plan=plan) + domfam.jobs('C12', 1, tier, defines=('ALLOC_SIMPLE',), plan=(plan[:6] + [(2, 0, 0, 2, 8), (1, 0, 0, 3, 2)]) if q else plan)
    if only: J = [j for j in J if re.search(only, j.name)]
    res = runner.run_jobs(J)
    return runner.finish('C12', tier, seed, res, 'model_checking',
                         'bounded symbolic execution (llsym/z3) of symbolic DOM operation scripts in lock-step with a vector/pair-vector reference model',
                         domfam.ASSUME, t0, prop_filter=lambda v: v['kind'] != 'property' or v['msg'].startswith('C12'))
