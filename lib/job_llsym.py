#!/usr/bin/env python3
"""Run one llsym job described by a JSON spec; print one JSON result line."""
import sys, os, json, time, importlib, resource
sys.path.insert(0, os.path.dirname(os.path.abspath(__file__)))
sys.setrecursionlimit(10000)
import llsym


def main():
    spec = json.load(open(sys.argv[1]))
    t0 = time.time()
    res = dict(name=spec['name'], status='pass', violations=[], stats={}, funcs=[])
    try:
        E = llsym.Engine(open(spec['ll']).read(), max_steps=spec['max_steps'], max_paths=spec['max_paths'], params=spec['params'],
                         check_undef=spec.get('check_undef', True), cpu=spec.get('extra', {}).get('cpu', 'haswell'))
        E.stop_on_first = spec.get('stop_on_first', False)
        if spec.get('stubs'):
            mod = importlib.import_module(spec['stubs']); E.stubs = mod.STUBS
        samples = []
        def on_end(st):
            if len(samples) < 3:
                mdl = st.model; ins = {}
                for name, kind, vars_ in st.inputs:
                    if kind == 'bytes': ins[name] = bytes(mdl.eval(x, model_completion=True).as_long() for x in vars_).hex()
                    else: ins[name] = mdl.eval(vars_, model_completion=True).as_long()
                samples.append(dict(path_condition_size=len(st.pc), example_input=ins, path_condition_head=[str(c)[:120].replace('\n', ' ') for c in st.pc[:3]]))
        E.on_path_end = on_end
        try:
            if spec['nproc'] > 1: E.run_parallel(spec['entry'], spec['nproc'])
            else: E.run(spec['entry'])
        except llsym.Inconclusive as e:
            res['status'] = 'inconclusive'; res['error'] = str(e)
        res['violations'] = E.violations
        if E.violations and res['status'] == 'pass': res['status'] = 'violation'
        if E.track_log is not None:
            tl = E.track_log
            both = tl['unlocked_reads'] & tl['locked_writes']
            res['extra'] = dict(locked_accesses=tl['locked_accesses'], unlocked_reads_of_metadata=sorted(map(str, tl['unlocked_reads']))[:20], locked_writes=len(tl['locked_writes']))
            if both:
                E.violations.append(dict(kind='race', msg='C17: pool metadata %s is read without the lock but written under it by another call' % sorted(both)[0:3], inputs={}, stack=[], notes=[], order=[]))
                res['violations'] = E.violations; res['status'] = 'violation'
        res['stats'] = E.stats; res['funcs'] = sorted(E.funcs_seen); res['samples'] = samples
        if E.stats.get('paths', 0) == 0 and res['status'] == 'pass':
            res['status'] = 'inconclusive'; res['error'] = 'vacuous: no path reached the end of the harness'
    except Exception as e:
        import traceback
        res['status'] = 'error'; res['error'] = traceback.format_exc()[-2000:]
    res['engine_wall'] = time.time() - t0
    print(json.dumps(res, default=str))


main()
