#!/usr/bin/env python3
"""Engine E1: harness IR -> C (ll2c) -> CBMC.  One JSON spec in, one JSON result line out.
Steps: translate; validate the translation (generated C built with gcc vs the real harness built with g++, same seeded
random vectors, return values must agree); run CBMC (all assertions, unwinding assertions); run the -DWITNESS twin whose
final assert(0) must FAIL (vacuity guard); extract the counterexample inputs from the trace."""
import sys, os, json, time, subprocess, re, resource, shutil
HERE = os.path.dirname(os.path.abspath(__file__))
sys.path.insert(0, HERE)
import build

GLUE = r'''
#include "%(gen)s"
#ifdef __CPROVER__
uint64_t nondet_u64(void); uint8_t nondet_u8(void);
#else
static uint64_t ll_rng; static uint64_t ll_next(void){ ll_rng ^= ll_rng << 13; ll_rng ^= ll_rng >> 7; ll_rng ^= ll_rng << 17; return ll_rng; }
uint64_t nondet_u64(void){ uint64_t r = ll_next(); int k = ll_next() %% 4; return k==0 ? r : k==1 ? r >> 32 : k==2 ? r >> 48 : (r %% 3 ? ~(uint64_t)0 - (r>>60) : r >> 60); }
uint8_t nondet_u8(void){ return (uint8_t)ll_next(); }
void ll_seed(uint64_t s){ ll_rng = s * 0x9E3779B97F4A7C15ull + 1; }
#endif
static const uint64_t LL_PARAMS[] = { %(params)s 0 };
uint64_t cex_int[16]; uint8_t cex_bytes[4][128]; uint64_t cex_nint, cex_nbytes;
uint64_t x_verif_range(uint64_t lo, uint64_t hi, uint8_t* name){
  uint64_t v = nondet_u64();
#ifdef __CPROVER__
  __CPROVER_assume(v >= lo && v <= hi);
#else
  v = (hi - lo == ~(uint64_t)0) ? v : lo + v %% (hi - lo + 1);
#endif
  cex_int[cex_nint++] = v; return v; }
void x_verif_symbolic(uint8_t* p, uint64_t n, uint8_t* name){
  for (uint64_t i = 0; i < n; i++) { uint8_t b = nondet_u8(); p[i] = b; if (cex_nbytes < 4 && i < 128) cex_bytes[cex_nbytes][i] = b; }
  cex_nbytes++; }
int ll_failed;
#ifdef __CPROVER__
void x_verif_assume(uint32_t c){ __CPROVER_assume(c != 0); }
void x_verif_check(uint32_t c, uint8_t* what){ __CPROVER_assert(c != 0, "verif_check"); }
void x_verif_fail(uint8_t* what){ __CPROVER_assert(0, "verif_fail"); }
#else
int ll_assume_failed;
void x_verif_assume(uint32_t c){ if (!c) ll_assume_failed = 1; }
void x_verif_check(uint32_t c, uint8_t* what){ if (!c) ll_failed = 1; }
void x_verif_fail(uint8_t* what){ ll_failed = 1; }
#endif
uint64_t x_verif_param(uint32_t i){ return LL_PARAMS[i]; }
#ifdef __CPROVER__
#ifndef LL_BIGW
#define LL_BIGW 1400
#endif
typedef unsigned __CPROVER_bitvector[LL_BIGW] ll_big;
/* exact oracle: is `bits` (sign cleared) the nearest double, ties to even, of man * 10^exp10 ?  Normal results only. */
uint32_t x_verif_oracle_dec2double(uint64_t man, uint32_t exp10u, uint64_t bits){
  int E = (int)exp10u;
  uint64_t bexp = (bits >> 52) & 0x7FF;
  if (bexp == 0 || bexp == 0x7FF) return 0;
  uint64_t m = (bits & 0xFFFFFFFFFFFFFULL) | (1ULL << 52); int e2 = (int)bexp - 1075;
  ll_big lhs = man, rhs = m, half = 1;
  for (int i = 0; i < 350; i++) { if (i < (E > 0 ? E : 0)) lhs = lhs * 10; }
  for (int i = 0; i < 350; i++) { if (i < (E < 0 ? -E : 0)) { rhs = rhs * 10; half = half * 10; } }
  ll_big L = lhs * 2, R = rhs * 2, H = half;
  /* within one window of 2^W mantissas the binary exponent takes at most two values; they are job parameters 6 and 7
     (computed exactly by the check), so the shifts below are by constants.  Any other exponent is wrong by construction. */
  int k1 = (int)LL_PARAMS[6], k2 = (int)LL_PARAMS[7];
  if (e2 == k1) { if (k1 >= 0) { R = R << k1; H = H << k1; } else { L = L << (-k1); } }
  else if (e2 == k2) { if (k2 >= 0) { R = R << k2; H = H << k2; } else { L = L << (-k2); } }
  else return 0;
  ll_big diff = L > R ? L - R : R - L;
  if (diff > H) return 0;
  if (diff == H && (m & 1) != 0) return 0;
  return 1;
}
/* exact oracle for Schubfach: v = c*2^q, interval [ (4c-2+irr)*2^(q-2), (4c+2)*2^(q-2) ], decimal x = sig*10^exp.
   Everything is scaled to integers by 2^max(0,2-q) and 10^max(0,-E) where E is the SMALLER of the two candidate decimal
   exponents (job parameters 4 and 5), so all powers are constants. */
static ll_big ll_pow10(int n){ ll_big r = 1; for (int i = 0; i < 400; i++) { if (i < n) r = r * 10; } return r; }
uint32_t x_verif_oracle_shortest(uint64_t c, uint32_t qu, uint32_t irregular, uint64_t sig, uint32_t expu){
  int q = (int)qu, e = (int)expu;
  int e1 = (int)LL_PARAMS[4];          /* smallest decimal exponent the result may have; the regular and the irregular
                                          (power-of-two) estimate differ by at most one, and each allows k or k+1: e in e1..e1+2 */
  if (e < e1 || e > e1 + 2) return 0;
  /* common scale: multiply everything by 2^S2 * 10^S10 with S2 = max(0, 2-q), S10 = max(0, -e1) */
  int S2 = q < 2 ? 2 - q : 0, S10 = e1 < 0 ? -e1 : 0;
  ll_big P10 = ll_pow10(S10);
  ll_big two = 1; two = two << S2;
  ll_big bscale = P10;                    /* binary side: value * 2^(q-2) * 2^S2 * 10^S10 */
  if (q - 2 + S2 > 0) bscale = bscale << (q - 2 + S2);
  ll_big lo = (ll_big)(4 * c - 2 + irregular) * bscale, mid = (ll_big)(4 * c) * bscale, hi = (ll_big)(4 * c + 2) * bscale;
  /* decimal side: sig * 10^(e + S10) * 2^S2 */
  ll_big unit1 = ll_pow10(e1 + S10) * two;           /* one unit of the last digit at exponent e1 */
  ll_big unit2 = unit1 * 10, unit3 = unit2 * 10;
  ll_big unit = (e == e1) ? unit1 : (e == e1 + 1) ? unit2 : unit3;
  ll_big x = (ll_big)sig * unit;
  int even = (c & 1) == 0;
  /* (a) inside the rounding interval */
  if (even) { if (x < lo || x > hi) return 0; } else { if (x <= lo || x >= hi) return 0; }
  /* (b) shortest: no multiple of 10*unit lies in the interval (other than x itself when sig ends in 0) */
  ll_big u10 = unit * 10;
  uint64_t t = sig / 10;
  ll_big m0 = (ll_big)t * u10, m1 = m0 + u10;
  int in0 = even ? (m0 >= lo && m0 <= hi) : (m0 > lo && m0 < hi);
  int in1 = even ? (m1 >= lo && m1 <= hi) : (m1 > lo && m1 < hi);
  if (sig %% 10 != 0) { if (in0 || in1) return 0; }
  /* (c) closest at this exponent: neighbours that are also inside must not be strictly closer; on a tie the even digit wins */
  ll_big d = x > mid ? x - mid : mid - x;
  ll_big xm = x - unit, xp = x + unit;
  int inm = even ? (xm >= lo && xm <= hi) : (xm > lo && xm < hi);
  int inp = even ? (xp >= lo && xp <= hi) : (xp > lo && xp < hi);
  if (inm) { ll_big dm = xm > mid ? xm - mid : mid - xm; if (dm < d || (dm == d && (sig & 1))) return 0; }
  if (inp) { ll_big dp = xp > mid ? xp - mid : mid - xp; if (dp < d || (dp == d && (sig & 1))) return 0; }
  return 1;
}
#else
uint32_t x_verif_oracle_shortest(uint64_t c, uint32_t q, uint32_t irr, uint64_t sig, uint32_t e){ return 1; }
uint32_t x_verif_oracle_dec2double(uint64_t man, uint32_t exp10u, uint64_t bits){ return 1; }  /* translator validation compares the kernel only */
#endif
uint64_t x_verif_concrete(uint64_t v){ return v; }
uint64_t x_verif_live_heap(void){ return 0; }
void x_verif_note(uint8_t* w, uint64_t v){}
uint32_t x_verif_is_replay(void){ return 0; }
void x_verif_check_independent(uint64_t v, uint8_t* w){}
void x_verif_check_independent_mem(uint8_t* p, uint64_t n, uint8_t* w){}
#ifdef __CPROVER__
int main(void){ ll_init_globals(); %(entry)s();
#ifdef WITNESS
  __CPROVER_assert(0, "witness: end of harness reachable");
#endif
  return 0; }
#endif
'''

VALID = r'''
// translator validation driver: the generated C (gcc) and the real harness (g++) on the same seeded vectors
#include <stdio.h>
#include <stdint.h>
#include <stdlib.h>
#include <string.h>
extern "C" {
  extern int ll_failed, ll_assume_failed; void ll_seed(uint64_t); void ll_init_globals(void); uint32_t %(gentry)s(void);
  extern uint64_t cex_nint, cex_nbytes;
  int %(entry)s(void);
  uint64_t nondet_u64(void); uint8_t nondet_u8(void);
}
static const uint64_t PARAMS[] = { %(params)s 0 };
static int real_failed, real_assume_failed;
extern "C" {
void verif_symbolic(void* p, size_t n, const char*){ for (size_t i = 0; i < n; i++) ((uint8_t*)p)[i] = nondet_u8(); }
uint64_t verif_range(uint64_t lo, uint64_t hi, const char*){ uint64_t v = nondet_u64(); return (hi - lo == ~(uint64_t)0) ? v : lo + v %% (hi - lo + 1); }
void verif_assume(int c){ if (!c) real_assume_failed = 1; }
void verif_check(int c, const char*){ if (!c) real_failed = 1; }
void verif_fail(const char*){ real_failed = 1; }
long verif_param(int i){ return (long)PARAMS[i]; }
long verif_live_heap(void){ return 0; }
void verif_note(const char*, long){}
uint64_t verif_concrete(uint64_t v){ return v; }
int verif_is_replay(void){ return 0; }
void* verif_alloc_page_end(size_t n, size_t, size_t){ return malloc(n); }
void verif_map_slack(const void*, size_t){}
int verif_oracle_dec2double(uint64_t, int, uint64_t){ return 1; }
int verif_oracle_shortest(uint64_t, int, int, uint64_t, int){ return 1; }
void verif_check_independent(uint64_t, const char*){}
void verif_check_independent_mem(const void*, size_t, const char*){}
}
int main(int argc, char** argv){
  long n = atol(argv[1]); uint64_t seed = strtoull(argv[2], 0, 10); long bad = 0, used = 0;
  ll_init_globals();
  for (long i = 0; i < n; i++) {
    ll_seed(seed + i); real_failed = real_assume_failed = 0; int r1 = %(entry)s();
    ll_seed(seed + i); ll_failed = ll_assume_failed = 0; cex_nint = cex_nbytes = 0; int r2 = (int)%(gentry)s();
    if (real_assume_failed != ll_assume_failed) bad++;
    else if (!real_assume_failed) { used++; if (r1 != r2 || real_failed != ll_failed) { bad++; if (bad < 4) printf("DISAGREE vector %%ld: real=%%d/%%d generated=%%d/%%d\n", i, r1, real_failed, r2, ll_failed); } }
  }
  printf("VALIDATION vectors=%%ld used=%%ld disagreements=%%ld\n", n, used, bad);
  return bad ? 1 : 0;
}
'''


def sh(cmd, timeout=None, **kw):
    return subprocess.run(cmd, stdout=subprocess.PIPE, stderr=subprocess.STDOUT, text=True, timeout=timeout, **kw)


def limit_mem(gb):
    def f():
        resource.setrlimit(resource.RLIMIT_AS, (gb << 30, gb << 30))
    return f


def main():
    spec = json.load(open(sys.argv[1]))
    t0 = time.time(); x = spec.get('extra', {})
    res = dict(name=spec['name'], status='pass', violations=[], stats=dict(paths=0, queries=0, qtime=0.0, steps=0), funcs=[], extra={})
    wd = os.path.join(build.workdir(), 'cbmc_' + re.sub(r'[^A-Za-z0-9_.-]', '_', spec['name']))
    os.makedirs(wd, exist_ok=True)
    try:
        gen = os.path.join(wd, 'gen.c')
        r = sh([sys.executable, os.path.join(HERE, 'll2c.py'), spec['ll'], gen, '--strict'])
        if r.returncode != 0: raise RuntimeError('ll2c failed: ' + r.stdout[-1500:])
        shutil.copy(os.path.join(HERE, 'll_intrinsics.h'), wd)
        entry = spec['entry'].lstrip('@')
        params = ''.join('%dull, ' % (p & ((1 << 64) - 1)) for p in spec['params'])
        glue = os.path.join(wd, 'glue.c')
        open(glue, 'w').write(GLUE % dict(gen=gen, params=params, entry='f_' + entry))
        funcs = re.findall(r'^\w[\w \*]* (f_\w+)\(', open(gen).read(), re.M)
        res['funcs'] = sorted(set(funcs))
        # ---- translator validation
        nvec = x.get('validate_vectors', 2000)
        if nvec:
            vsrc = os.path.join(wd, 'valid.cpp')
            open(vsrc, 'w').write(VALID % dict(entry=entry, gentry='f_' + entry, params=params))
            r = sh(['gcc', '-O1', '-w', '-c', glue, '-o', os.path.join(wd, 'glue.o'), '-I', wd] + build.CONFIGS[spec['config']])
            if r.returncode != 0: raise RuntimeError('gcc on generated C failed: ' + r.stdout[-1500:])
            flags = ['-std=c++17', '-O1', '-w', '-DSONIC_VERIF'] + build.CONFIGS[spec['config']] + ['-D' + d for d in spec['defines']]
            r = sh(['g++'] + flags + ['-I' + os.path.join(build.VERIF, 'harness'), '-I' + os.path.join(build.REPO, 'include'),
                            os.path.join(build.VERIF, spec['src']), vsrc, os.path.join(wd, 'glue.o'), '-o', os.path.join(wd, 'valid')])
            if r.returncode != 0: raise RuntimeError('g++ on validation driver failed: ' + r.stdout[-1500:])
            r = sh([os.path.join(wd, 'valid'), str(nvec), str(x.get('seed', 1))], timeout=300)
            res['extra']['translator_validation'] = r.stdout.strip().split('\n')[-1]
            if r.returncode != 0:
                res['status'] = 'error'; res['error'] = 'translator validation failed (engine error, no verdict): ' + r.stdout[-600:]
                print(json.dumps(res)); return
        # ---- cbmc
        unwind = x.get('unwind', 2)
        base = ['cbmc', glue, '-I', wd, '--unwind', str(unwind), '--unwinding-assertions', '--undefined-shift-check', '--drop-unused-functions',
                '--no-malloc-may-fail', '--no-standard-checks', '--bounds-check', '--pointer-check', '--div-by-zero-check', '--slice-formula']
        base += x.get('cbmc_flags', [])
        if x.get('bigw'): base += ['-DLL_BIGW=%d' % x['bigw']]
        mem = x.get('mem_gb', 24)
        tmo = x.get('cbmc_timeout', 900)
        # witness twin first (cheap): must FAIL
        tw = time.time()
        try:
            r = sh(base + ['-DWITNESS', '--property', 'main.assertion.1'], timeout=tmo, preexec_fn=limit_mem(mem))
            wit = 'FAILURE' in r.stdout and 'witness' in r.stdout
            if not wit:
                # property ids differ across versions: run all properties and look for the witness line
                r = sh(base + ['-DWITNESS'], timeout=tmo, preexec_fn=limit_mem(mem))
                wit = re.search(r'witness: end of harness reachable: FAILURE', r.stdout) is not None
        except subprocess.TimeoutExpired:
            wit = None
        res['extra']['witness_reached'] = wit
        res['extra']['witness_s'] = round(time.time() - tw, 1)
        if x.get('witness_param') is not None:
            # second vacuity twin: with param[witness_param]=1 the harness asserts the negation of its interesting case; must FAIL
            wp = list(spec['params']); 
            while len(wp) <= x['witness_param']: wp.append(0)
            wp[x['witness_param']] = 1
            glue2 = os.path.join(wd, 'glue_w.c')
            open(glue2, 'w').write(GLUE % dict(gen=gen, params=''.join('%dull, ' % (p & ((1 << 64) - 1)) for p in wp), entry='f_' + entry))
            try:
                r = sh(['cbmc', glue2] + base[2:], timeout=tmo, preexec_fn=limit_mem(mem))
                res['extra']['witness_case_reached'] = ('VERIFICATION FAILED' in r.stdout and 'verif_check' in r.stdout)
            except subprocess.TimeoutExpired:
                res['extra']['witness_case_reached'] = None
            if res['extra']['witness_case_reached'] is not True and x.get('witness_required', True):
                res['status'] = 'inconclusive'; res['error'] = 'vacuous window: the kernel accepts no value of this window (or the twin timed out)'
                if x.get('witness_optional'): res['status'] = 'pass'; res['extra']['note'] = 'kernel declines every value of this window'
                else:
                    print(json.dumps(res)); return
        tq = time.time()
        try:
            r = sh(base + ['--trace'], timeout=tmo, preexec_fn=limit_mem(mem))
        except subprocess.TimeoutExpired:
            res['status'] = 'inconclusive'; res['error'] = 'cbmc timeout after %ds' % tmo
            print(json.dumps(res)); return
        out = r.stdout
        dt = time.time() - tq
        res['stats']['qtime'] = dt; res['stats']['queries'] = 2; res['stats']['paths'] = 1
        mm = re.search(r'(\d+) variables, (\d+) clauses', out)
        if mm: res['extra']['sat_vars'] = int(mm.group(1)); res['extra']['sat_clauses'] = int(mm.group(2)); res['stats']['steps'] = int(mm.group(2))
        mm = re.search(r'\*\* (\d+) of (\d+) failed', out)
        if mm: res['extra']['assertions'] = int(mm.group(2)); res['stats']['checks'] = int(mm.group(2))
        if 'VERIFICATION SUCCESSFUL' in out:
            if wit is not True:
                res['status'] = 'inconclusive'; res['error'] = 'vacuity witness did not fail (harness end not shown reachable)'
        elif 'VERIFICATION FAILED' in out:
            failed = re.findall(r'^\[(.*?)\] .*?: FAILURE$', out, re.M)
            lines_failed = [l for l in out.split('\n') if l.endswith(': FAILURE')]
            # inputs = the nondet return values in call order (assignments to the cex_* recorders may be sliced away)
            u64s = [int(v) for v in re.findall(r'return_value_nondet_u64=(\d+)', out)]
            u8s = [int(v) for v in re.findall(r'return_value_nondet_u8=(\d+)', out)]
            ints = dict(enumerate(u64s)); byts = {}
            pos = 0; nb_ = 0
            for kind_, nm_ in x.get('input_names', []):
                if kind_ == 'bytes':
                    ln_ = x.get('byte_len', {}).get(nm_, len(u8s) - pos)
                    byts[nb_] = {i: u8s[pos + i] for i in range(min(ln_, len(u8s) - pos))}; pos += ln_; nb_ += 1
            inputs = {}; order = []
            names = x.get('input_names', [])
            ni = 0; nb = 0
            for kind, nm in names:
                if kind == 'int': inputs[nm] = {'int': ints.get(ni, 0)}; ni += 1
                else:
                    d = byts.get(nb, {}); ln = x.get('byte_len', {}).get(nm, (max(d) + 1) if d else 0)
                    inputs[nm] = {'hex': bytes(d.get(i, 0) for i in range(ln)).hex()}; nb += 1
                order.append(nm)
            unw = [l for l in lines_failed if 'unwinding assertion' in l]
            if unw and len(unw) == len(lines_failed):
                res['status'] = 'inconclusive'; res['error'] = 'unwinding assertion failed: bound %d too small: %s' % (unwind, unw[0][:200])
            else:
                msg = '; '.join(l.strip()[:160] for l in lines_failed if 'unwinding' not in l)[:500]
                kind = 'property' if ('verif_check' in msg or 'verif_fail' in msg) else 'oob'
                res['status'] = 'violation'
                res['violations'].append(dict(kind=kind, msg='cbmc: ' + msg, inputs=inputs, order=order, stack=[], notes=[]))
        else:
            res['status'] = 'inconclusive'; res['error'] = 'cbmc gave no verdict: ' + out[-600:]
    except Exception as e:
        import traceback
        res['status'] = 'error'; res['error'] = traceback.format_exc()[-1800:]
    res['engine_wall'] = time.time() - t0
    print(json.dumps(res))


main()
