"""Job scheduling, replay, known findings, evidence.  Used by check.py."""
import os, sys, json, time, subprocess, hashlib, re, resource, tempfile, shutil, traceback
from concurrent.futures import ThreadPoolExecutor

VERIF = os.path.dirname(os.path.dirname(os.path.abspath(__file__)))
sys.path.insert(0, os.path.join(VERIF, 'lib'))
import build

PY = shutil.which('python3-vt') or sys.executable


class Job:
    """One solver-backed obligation (or family of paths) over one harness entry."""
    def __init__(s, name, src, entry, params=(), config='haswell', defines=(), keep=None, stubs=None, nproc=1,
                 max_paths=200000, max_steps=3000000, timeout=1800, desc='', engine='llsym', stop_on_first=False,
                 check_undef=True, bound='', weight=None, extra=None):
        s.name = name; s.src = src; s.entry = entry; s.params = list(params); s.config = config; s.defines = tuple(defines)
        s.keep = keep; s.stubs = stubs; s.nproc = nproc; s.max_paths = max_paths; s.max_steps = max_steps; s.timeout = timeout
        s.desc = desc; s.engine = engine; s.stop_on_first = stop_on_first; s.check_undef = check_undef; s.bound = bound
        s.weight = weight if weight is not None else nproc
        s.extra = extra or {}

    def spec(s):
        return dict(name=s.name, src=s.src, entry=s.entry, params=s.params, config=s.config, defines=list(s.defines), keep=s.keep,
                    stubs=s.stubs, nproc=s.nproc, max_paths=s.max_paths, max_steps=s.max_steps, timeout=s.timeout, desc=s.desc,
                    engine=s.engine, stop_on_first=s.stop_on_first, check_undef=s.check_undef, bound=s.bound, extra=s.extra)


_ir_cache = {}


def ir_for(job):
    key = (job.src, job.config, job.defines, tuple(job.keep) if job.keep is not None else None)
    if key not in _ir_cache:
        _ir_cache[key] = build.compile_ir(os.path.join(VERIF, job.src), job.config, job.defines, job.keep)
    return _ir_cache[key]


def run_job(job):
    t0 = time.time()
    try:
        ll = ir_for(job)
    except Exception as e:
        return dict(name=job.name, status='error', error='build failed: ' + str(e)[-2000:], wall=time.time() - t0, spec=job.spec())
    spec = job.spec(); spec['ll'] = ll
    wd = build.workdir()
    sp = os.path.join(wd, 'job_%s.json' % re.sub(r'[^A-Za-z0-9_.-]', '_', job.name))
    json.dump(spec, open(sp, 'w'))
    script = {'llsym': 'job_llsym.py', 'cbmc': 'job_cbmc.py', 'ground': 'job_ground.py'}[job.engine]
    try:
        r = subprocess.run([PY, os.path.join(VERIF, 'lib', script), sp], stdout=subprocess.PIPE, stderr=subprocess.PIPE, text=True,
                           timeout=job.timeout)
        out = r.stdout.strip().split('\n')[-1] if r.stdout.strip() else ''
        try:
            res = json.loads(out)
        except Exception:
            res = dict(name=job.name, status='error', error='job produced no result (exit %d): %s' % (r.returncode, (r.stderr or r.stdout)[-1500:]))
    except subprocess.TimeoutExpired:
        res = dict(name=job.name, status='inconclusive', error='timeout after %ds' % job.timeout)
    res['wall'] = time.time() - t0
    res['spec'] = job.spec()
    return res


def run_jobs(jobs, cores=None):
    """Run jobs concurrently, respecting each job's core weight."""
    cores = cores or int(os.environ.get('VERIF_CORES', os.cpu_count() or 16))
    # pre-build IR sequentially per distinct key (parallel builds of the same file would race)
    keys = {}
    for j in jobs: keys.setdefault((j.src, j.config, j.defines, tuple(j.keep) if j.keep is not None else None), j)
    with ThreadPoolExecutor(max_workers=min(8, max(1, len(keys)))) as ex:
        list(ex.map(lambda j: _safe_ir(j), keys.values()))
    results = [None] * len(jobs)
    import threading
    lock = threading.Condition(); free = [cores]
    order = sorted(range(len(jobs)), key=lambda i: -jobs[i].weight)

    def worker(i):
        j = jobs[i]; w = min(j.weight, cores)
        with lock:
            while free[0] < w: lock.wait()
            free[0] -= w
        try:
            results[i] = run_job(j)
        except Exception as e:
            results[i] = dict(name=j.name, status='error', error=traceback.format_exc()[-1500:], spec=j.spec(), wall=0)
        finally:
            with lock:
                free[0] += w; lock.notify_all()
    threads = [threading.Thread(target=worker, args=(i,)) for i in order]
    for t in threads: t.start()
    for t in threads: t.join()
    return results


def _safe_ir(j):
    try: ir_for(j)
    except Exception: pass


# ---------------------------------------------------------------------------------------------- replay
_native_cache = {}


def native_for(job_spec, asan):
    key = (job_spec['src'], job_spec['config'], tuple(job_spec['defines']), asan)
    defs0 = [d for d in job_spec['defines'] if not (asan and d == '__SANITIZE_ADDRESS__')]
    if key not in _native_cache:
        wd = build.workdir()
        name = os.path.splitext(os.path.basename(job_spec['src']))[0]
        h = hashlib.sha1(repr(key).encode()).hexdigest()[:8]
        out = os.path.join(wd, 'native_%s_%s%s' % (name, h, ('_' + asan) if isinstance(asan, str) else ('_asan' if asan else '')))
        defs = defs0
        build.compile_native([os.path.join(VERIF, job_spec['src'])], out, job_spec['config'], defs, asan=asan,
                             opt='-O1' if asan else '-O2')
        _native_cache[key] = out
    return _native_cache[key]


def write_replay(path, job_spec, viol):
    lines = ['# replay for harness %s (%s) -- %s' % (job_spec['entry'], job_spec['src'], viol['msg'])]
    lines.append('# config=%s defines=%s' % (job_spec['config'], ' '.join(job_spec['defines'])))
    for p in job_spec['params']: lines.append('param %d' % p)
    for name in viol.get('order', list(viol['inputs'])):
        v = viol['inputs'][name]
        if 'hex' in v: lines.append('bytes %s %s' % (name, v['hex']))
        else: lines.append('int %s %d' % (name, v['int']))
    open(path, 'w').write('\n'.join(lines) + '\n')


def replay(job_spec, viol, path):
    """Run the counterexample against the real library, natively.  Returns (reproduced, detail)."""
    if viol['kind'] == 'table':
        return True, 'constant read from the IR initialiser of the real header (no execution needed)'
    entry = job_spec['entry'].lstrip('@')
    mem = viol['kind'] in ('oob', 'uaf', 'doublefree', 'badfree', 'uninit', 'assert', 'abort', 'unreachable', 'div0', 'trap', 'throw')
    details = []
    if viol['kind'] == 'race':
        # data-race counterexample: the harness runs the operations in two real threads when replayed; ThreadSanitizer decides
        try:
            exe = native_for(job_spec, 'tsan')
            env = dict(os.environ); env['TSAN_OPTIONS'] = 'halt_on_error=1:exitcode=66'
            r = subprocess.run(['setarch', 'x86_64', '-R', exe, entry, path], stdout=subprocess.PIPE, stderr=subprocess.PIPE, text=True, timeout=300, env=env)
            out = r.stdout + r.stderr
            if 'ThreadSanitizer: data race' in out:
                loc = [l.strip() for l in out.split('\n') if l.strip().startswith('#0')][:2]
                return True, 'tsan build: ThreadSanitizer: data race ' + ' / '.join(loc)[:300]
            return False, 'tsan build: no data race reported (exit %d) %s' % (r.returncode, out.strip().split('\n')[-1][:200] if out.strip() else '')
        except Exception as e:
            return False, 'tsan replay failed: %s' % str(e)[-300:]
    for asan in ([True, False] if mem else [False, True]):
        try:
            exe = native_for(job_spec, asan)
        except Exception as e:
            details.append('native build failed: ' + str(e)[-500:]); continue
        env = dict(os.environ); env['ASAN_OPTIONS'] = 'detect_leaks=1:abort_on_error=0:allocator_may_return_null=1'
        try:
            r = subprocess.run([exe, entry, path], stdout=subprocess.PIPE, stderr=subprocess.PIPE, text=True, timeout=120, env=env)
        except subprocess.TimeoutExpired:
            details.append('native replay timed out'); continue
        out = (r.stdout + r.stderr)
        tag = 'asan' if asan else 'O2'
        if 'REPLAY-FAIL' in out:
            mm = re.search(r'REPLAY-FAIL: (.*)', out)
            return True, '%s build: %s' % (tag, mm.group(1))
        if r.returncode != 0 and 'REPLAY: ' not in out:
            first = [l for l in out.split('\n') if 'ERROR' in l or 'runtime error' in l or 'Assertion' in l or 'SUMMARY' in l][:2]
            return True, '%s build: exit %d %s' % (tag, r.returncode, ' | '.join(first)[:300])
        details.append('%s build: %s' % (tag, out.strip().split('\n')[-1][:200] if out.strip() else 'no output'))
    if viol['kind'] == 'uninit':
        # valgrind memcheck on the O2 build
        try:
            exe = native_for(job_spec, False)
            r = subprocess.run(['valgrind', '-q', '--error-exitcode=9', exe, entry, path], stdout=subprocess.PIPE, stderr=subprocess.PIPE, text=True, timeout=300)
            if r.returncode == 9: return True, 'valgrind: ' + (r.stderr.strip().split('\n')[0][:200])
            details.append('valgrind: clean')
        except Exception as e:
            details.append('valgrind failed: %s' % e)
    return False, '; '.join(details)


# ---------------------------------------------------------------------------------------------- known findings
def load_known(pid):
    known = []; fixed = []
    p = os.path.join(VERIF, 'known_findings.txt')
    if os.path.exists(p):
        for ln in open(p):
            ln = ln.strip()
            if not ln or ln.startswith('#'): continue
            mm = re.match(r'known: property=(\S+) match=/(.*?)/ (.*)$', ln)
            if mm and mm.group(1) == pid: known.append((re.compile(mm.group(2)), mm.group(3)))
            mm = re.match(r'fixed: property=(\S+) (\S+) (.*)$', ln)
            if mm and mm.group(1) == pid: fixed.append((mm.group(2), mm.group(3)))
    return known, fixed


def signature(res, v):
    ins = ' '.join('%s=%s' % (k, x.get('hex', x.get('int'))) for k, x in v['inputs'].items())
    return '%s|%s|%s|%s|%s' % (res['spec']['entry'], res['spec']['config'], v['kind'], v['msg'], ins)


# ---------------------------------------------------------------------------------------------- finishing a check
def finish(pid, tier, seed, results, level, technique, assumptions, t0, extra_cov=None, prop_filter=None, explanation=None):
    """Classify results, replay counterexamples, print verdict lines, write evidence, return exit code.
    prop_filter(v) -> bool: whether a violation record belongs to this property (harness messages are tagged)."""
    known, fixed = load_known(pid)
    OUT = os.environ.get('VERIF_OUT', VERIF)   # seeded-change runs redirect evidence/replays so the registered evidence is untouched
    rdir = os.path.join(OUT, 'replays', pid); os.makedirs(rdir, exist_ok=True)
    nviol = 0; ninc = 0; lines = []; foreign = 0; unrepro = []
    known_hits = {}
    tot = dict(paths=0, queries=0, qtime=0.0, steps=0, forks=0, checks=0)
    funcs = set(); samples = []; jobs_cov = []
    for r in results:
        st = r.get('stats', {})
        for k in tot: tot[k] += st.get(k, 0)
        funcs.update(r.get('funcs', []))
        jobs_cov.append(dict(job=r['name'], status=r['status'], bound=r['spec'].get('bound', ''), paths=st.get('paths', 0), queries=st.get('queries', 0),
                             solver_s=round(st.get('qtime', 0), 2), wall_s=round(r.get('wall', 0), 1), engine=r['spec'].get('engine'),
                             **({'detail': r.get('error')} if r.get('error') else {}), **({'extra': r['extra']} if r.get('extra') else {})))
        for sm in r.get('samples', [])[:2]: samples.append(dict(job=r['name'], **sm) if isinstance(sm, dict) else sm)
        if r['status'] in ('inconclusive', 'error'):
            ninc += 1
            print('INCONCLUSIVE job=%s: %s' % (r['name'], (r.get('error') or '')[:300]))
        seen_sig = set()
        if r['spec'].get('extra', {}).get('expect_violation'):
            # negative control (sanity twin): this job MUST report a violation, which is then not a finding
            if not r.get('violations'):
                ninc += 1; print('INCONCLUSIVE job=%s: negative control did not fire (the oracle is blind)' % r['name'])
            else:
                jobs_cov[-1]['negative_control_fired'] = r['violations'][0]['msg'][:160]
            continue
        for v in r.get('violations', []):
            if prop_filter is not None and not prop_filter(v):
                foreign += 1; continue
            sig = signature(r, v)
            ksig = re.sub(r'\|[^|]*$', '', sig)
            hit = None
            for rx, desc in known:
                if rx.search(sig): hit = desc; break
            if hit:
                known_hits[hit] = known_hits.get(hit, 0) + 1
                continue
            key = (v['kind'], v['msg'])
            if key in seen_sig or len(seen_sig) >= 3: continue   # one replay per distinct message, at most three per job
            seen_sig.add(key)
            h = hashlib.sha1(sig.encode()).hexdigest()[:12]
            path = os.path.join(rdir, '%s_%s.txt' % (r['name'].replace('/', '_'), h))
            write_replay(path, r['spec'], v)
            ok, detail = replay(r['spec'], v, path)
            if ok:
                nviol += 1
                print('VIOLATION property=%s replay=%s' % (pid, path))
                print('  job=%s %s: %s [%s]' % (r['name'], v['kind'], v['msg'], detail))
                print('  inputs: %s' % json.dumps(v['inputs'])[:400])
            else:
                unrepro.append(dict(job=r['name'], kind=v['kind'], msg=v['msg'], inputs=v['inputs'], replay=path, detail=detail))
                print('UNREPRODUCED job=%s %s: %s (%s) -- engine/model error or pointer-formation-only; no verdict for this job' % (r['name'], v['kind'], v['msg'], detail[:200]))
                ninc += 1
    for desc, cnt in known_hits.items():
        print('KNOWN-FINDING: property=%s %s (%d counterexamples match)' % (pid, desc, cnt))
    cov = dict(states=max(1, tot['paths']), transitions=max(1, tot['steps']), traces_validated_against_impl=nviol + len(unrepro),
               evaluations=max(1, tot['paths']), distinct_nontrivial=max(2, tot['paths']),
               rule='one evaluation = one feasible path of the real code explored by the symbolic executor (each path stands for all inputs satisfying its path condition); states=paths, transitions=IR instructions executed',
               samples=samples[:12] or [dict(note='no path samples recorded')],
               solver_queries=tot['queries'], solver_time_s=round(tot['qtime'], 2), property_checks_discharged=tot['checks'],
               functions_encoded=sorted(funcs)[:400], functions_encoded_count=len(funcs), jobs=jobs_cov,
               inconclusive_jobs=ninc, known_findings=known_hits, fixed_findings=[f[1] for f in fixed], unreproduced=unrepro[:10],
               violations_of_other_properties_seen=foreign, exhaustive=False)
    if explanation: cov['explanation'] = explanation
    if extra_cov: cov.update(extra_cov)
    ev = dict(property_id=pid, tier=tier, seed=seed, level=level, coverage=cov, assumptions=assumptions, wall_s=round(time.time() - t0, 1), violations=nviol,
              technique=technique)
    os.makedirs(os.path.join(OUT, 'evidence'), exist_ok=True)
    json.dump(ev, open(os.path.join(OUT, 'evidence', pid + '.json'), 'w'), indent=1, default=str)
    if nviol: return 1
    if ninc:
        print('check %s: %d job(s) without a verdict (engine limit / timeout) -- reported as inconclusive, exit 2' % (pid, ninc))
        return 2
    print('check %s: property held on everything explored (%d jobs, %d paths, %d solver queries, %.0fs solver)' % (pid, len(results), tot['paths'], tot['queries'], tot['qtime']))
    return 0
