#!/usr/bin/env python3
"""llsym -- forking symbolic executor for clang-14 textual LLVM IR (typed pointers) on z3.

Engine E2 of /verif/DESIGN.md.  The real sonic-cpp code is compiled to IR on every run; this module
executes that IR with symbolic input bytes.  Design:

 * flat 64-bit address space; every object (global, alloca, heap block) lives at a concrete address with
   an unmapped gap around it, so pointers are plain integers and every load/store is bounds-checked against
   the exact object the address falls in (the memory-safety oracle);
 * memory bytes are concrete ints, z3 BitVec(8) terms, slices of a wider term, or None (= never written:
   materialised as a fresh `undef!k` variable on first read so that a decision that depends on it can be
   reported);
 * a branch on a symbolic condition asks z3 for the feasibility of both sides under the path condition and
   forks only if both are feasible (one query per branch thanks to a cached model per state);
 * a symbolic address / size is resolved by enumerating its feasible values (if-then-else term for loads,
   fork for stores and sizes);
 * harnesses talk to the engine through the verif_* functions of harness/verif.h.
"""
import sys, re, time, struct, bisect, os
import z3
import ll2c
from ll2c import (P, tokenize, resolve, sizeof, alignof, field_off, IntT, FloatT, PtrT, ArrT, VecT, StructT, NamedT,
                  VoidT, FnT, OpaqueT, const_bytes)

M64 = (1 << 64) - 1
SLOWLOG = float(os.environ.get('LLSYM_SLOW', '0'))


def m(n): return (1 << n) - 1


def sx(v, n):
    v &= (1 << n) - 1
    return v - (1 << n) if v >> (n - 1) else v


def is_sym(v): return isinstance(v, z3.ExprRef)


def bv(v, n): return z3.BitVecVal(v, n) if type(v) is int else v


def simp(r):
    r = z3.simplify(r)
    if z3.is_bv_value(r): return r.as_long()
    return r


class Violation(Exception):
    def __init__(s, kind, msg): Exception.__init__(s, msg); s.kind = kind; s.msg = msg


class Inconclusive(Exception): pass


class PathEnd(Exception): pass


class Obj:
    __slots__ = ('base', 'size', 'b', 'name', 'kind', 'freed', 'owner')

    def __init__(s, base, size, b, name, kind, owner):
        s.base = base; s.size = size; s.b = b; s.name = name; s.kind = kind; s.freed = False; s.owner = owner


class Frame:
    __slots__ = ('fn', 'regs', 'blocks', 'bi', 'ii', 'prev', 'dest', 'allocas')

    def __init__(s, fn, regs, blocks, dest):
        s.fn = fn; s.regs = regs; s.blocks = blocks; s.bi = 0; s.ii = 0; s.prev = None; s.dest = dest; s.allocas = []


_state_ids = [0]


def new_id():
    _state_ids[0] += 1
    return _state_ids[0]


class State:
    def __init__(s):
        s.id = new_id(); s.objs = {}; s.bases = []; s.pc = []; s.model = None; s.frames = []
        s.heap_next = 0x10000000; s.stack_next = 0x7f0000000000; s.steps = 0
        s.inputs = []  # (name, kind, vars)
        s.notes = []; s.live_heap = 0; s.nundef = 0; s.trace = []; s.seq = []; s.retval = None; s.concr = {}; s.known = {}; s.track = None

    def fork(s):
        t = State.__new__(State)
        t.id = new_id(); s.id = new_id()
        t.objs = dict(s.objs); t.bases = list(s.bases); t.pc = list(s.pc); t.model = s.model
        t.frames = []
        for f in s.frames:
            g = Frame(f.fn, dict(f.regs), f.blocks, f.dest); g.bi = f.bi; g.ii = f.ii; g.prev = f.prev; g.allocas = list(f.allocas)
            t.frames.append(g)
        t.heap_next = s.heap_next; t.stack_next = s.stack_next; t.steps = s.steps
        t.inputs = list(s.inputs); t.notes = list(s.notes); t.live_heap = s.live_heap; t.nundef = s.nundef
        t.trace = list(s.trace); t.seq = list(s.seq); t.retval = None; t.concr = dict(s.concr); t.known = dict(s.known); t.track = None if s.track is None else dict(s.track, ranges=list(s.track['ranges']), private=set(s.track['private']), locks=set(s.track['locks']))
        return t

    def add_obj(s, o):
        s.objs[o.base] = o
        bisect.insort(s.bases, o.base)

    def find(s, addr):
        i = bisect.bisect_right(s.bases, addr) - 1
        if i < 0: return None
        o = s.objs[s.bases[i]]
        if addr >= o.base + max(o.size, 1): return None
        return o

    def wobj(s, o):
        if o.owner != s.id:
            n = Obj(o.base, o.size, list(o.b), o.name, o.kind, s.id); n.freed = o.freed
            s.objs[o.base] = n
            return n
        return o


R, C = 0, 1  # operand tags


class Engine:
    def __init__(s, ll_text, max_steps=2000000, max_paths=200000, query_timeout_ms=120000, check_undef=True,
                 params=None, page_end=None, cpu='haswell'):
        s.cpu = cpu; s.ifunc_cache = {}
        ll2c.M = ll2c.Module()
        # ll2c functions reference the module-level M; rebind in that module
        ll2c.parse_module(ll_text)
        s.M = ll2c.M
        s.max_steps = max_steps; s.max_paths = max_paths; s.check_undef = check_undef
        s.params = params or []
        s.stats = dict(paths=0, queries=0, qtime=0.0, forks=0, steps=0, infeasible=0, undef_checks=0)
        s.funcs_seen = set()
        s.decoded = {}
        s.gaddr = {}; s.faddr = {}; s.addr2fn = {}
        s.solver = None; s.query_timeout_ms = query_timeout_ms
        s.violations = []
        s.stop_on_first = True
        s.undefvars = {}
        s.layout_globals()

    # ------------------------------------------------------------------ solver
    def get_solver(s):
        if s.solver is None:
            s.solver = z3.Solver()
            if not s.no_timeout: s.solver.set('timeout', s.query_timeout_ms)
        return s.solver

    def sat(s, pc, extra=None):
        if s.stats['queries'] % 200 == 199 and s.solver is not None:
            s.solver = None   # a long-lived z3 solver slows down; start a fresh one regularly
        sol = s.get_solver()
        t0 = time.time(); s.stats['queries'] += 1
        a = pc + [extra] if extra is not None else pc
        r = sol.check(*a)
        dt = time.time() - t0
        s.stats['qtime'] += dt
        if SLOWLOG and dt > SLOWLOG:
            print('SLOW %.1fs pc=%d extra=%s' % (dt, len(pc), str(extra)[:400].replace('\n', ' ')), file=sys.stderr)
            for c in pc[-6:]: print('     ', str(c)[:300].replace('\n', ' '), file=sys.stderr)
        if r == z3.unknown: raise Inconclusive('solver returned unknown: ' + sol.reason_unknown())
        if r == z3.sat:
            s.last_model = sol.model(); return True
        return False

    def empty_model(s):
        sol = s.get_solver(); sol.check(); return sol.model()

    # ------------------------------------------------------------------ globals
    def layout_globals(s):
        addr = 0x400000
        s.ginit = []
        fa = 0x100000
        for name in list(s.M.funcs) + list(s.M.decls):
            if name not in s.faddr:
                s.faddr[name] = fa; s.addr2fn[fa] = name; fa += 16
        for g in s.M.globals.values():
            if g['kind'] != 'var' or g['name'].startswith('@llvm.'): continue
            sz = max(1, sizeof(g['ty'])); al = 64
            addr = (addr + al - 1) // al * al
            s.gaddr[g['name']] = addr
            s.ginit.append((g, addr, sz))
            addr += sz + 256
        s.gobjs = []
        relocs_all = []
        for g, a, sz in s.ginit:
            if g['init'] is None:
                b = [0] * sz; relocs = []
                if g['name'] == '@__cpu_model':
                    # libgcc's CPU feature word consulted by ifunc resolvers: bit 10 = avx2, bit 8 = sse4.2, bit 19 = pclmul (+ the older SSE levels)
                    feat = {'haswell': 0x400 | 0x80000 | 0x1ff, 'westmere': 0x80000 | 0x1ff, 'none': 0}[s.cpu]
                    b[12:16] = list(feat.to_bytes(4, 'little'))
            else:
                relocs = []
                b = list(const_bytes(g['ty'], g['init'], relocs, 0))
                if len(b) < sz: b += [0] * (sz - len(b))
            o = Obj(a, sz, b, g['name'], 'const' if g['const'] else ('tls' if g.get('tls') else 'global'), 0)
            s.gobjs.append(o)
            for off, v, ty in relocs:
                val = s.constval(ty, v)
                for i in range(sizeof(ty)): o.b[off + i] = (val >> (8 * i)) & 255

    def constval(s, ty, v):
        """Evaluate a constant operand to a python value."""
        k = v[0]; rt = resolve(ty)
        if k == 'ref':
            n = v[1]
            if n in s.gaddr: return s.gaddr[n]
            if n in s.faddr: return s.faddr[n]
            g = s.M.globals.get(n)
            if g is not None and g['kind'] in ('alias', 'ifunc'): return s.constval(ty, g['target'])
            raise ValueError('unknown global ' + n)
        if k == 'int':
            if isinstance(rt, IntT): return v[1] & m(rt.n)
            return v[1]
        if k == 'fp':
            if rt.k == 'double': return struct.unpack('<Q', struct.pack('<d', v[1]))[0]
            return struct.unpack('<I', struct.pack('<f', v[1]))[0]
        if k == 'null': return 0
        if k in ('undef', 'zero'): return s.zero(rt)
        if k == 'agg':
            return [s.constval(t, x) for t, x in v[1]]
        if k == 'bytes': return list(v[1])
        if k == 'cgep':
            _, bt, base, idx = v
            b = s.constval(PtrT(bt), base)
            return s.gep_const(bt, b, [(it, s.constval(it, iv)) for it, iv in idx])
        if k == 'ccast':
            _, op, ft, x, tt = v
            xv = s.constval(ft, x)
            if op in ('bitcast', 'ptrtoint', 'inttoptr', 'addrspacecast'): return xv
            rf = resolve(ft); rtt = resolve(tt)
            if op == 'trunc': return xv & m(rtt.n)
            if op == 'zext': return xv
            if op == 'sext': return sx(xv, rf.n) & m(rtt.n)
        if k == 'cbin':
            _, op, t1, a, b = v
            a = s.constval(t1, a); b = s.constval(t1, b); n = resolve(t1).n if isinstance(resolve(t1), IntT) else 64
            return cbin(op, n, a, b)
        raise ValueError('constval %r' % (v,))

    def zero(s, rt):
        rt = resolve(rt)
        if isinstance(rt, VecT): return [s.zero(rt.el) for _ in range(rt.n)]
        if isinstance(rt, ArrT): return [s.zero(rt.el) for _ in range(rt.n)]
        if isinstance(rt, StructT): return [s.zero(e) for e in rt.els]
        return 0

    def gep_const(s, bt, base, idx):
        off = 0; cur = bt
        for n, (it, iv) in enumerate(idx):
            if n == 0: off += sx(iv, resolve(it).n) * sizeof(cur); continue
            r = resolve(cur)
            if isinstance(r, StructT): off += field_off(r, iv); cur = r.els[iv]
            else: cur = r.el; off += sx(iv, resolve(it).n) * sizeof(cur)
        return (base + off) & M64

    # ------------------------------------------------------------------ decode
    def decode(s, fname):
        f = s.M.funcs[fname]
        bindex = {b[0]: i for i, b in enumerate(f.blocks)}
        out = []
        for bl, lines in f.blocks:
            L = []
            for ln in lines:
                ln = re.sub(r'(, ![a-zA-Z_.0-9]+ ![0-9]+)+$', '', ln)
                if 'metadata' in ln and ('@llvm.experimental.noalias.scope.decl' in ln or '@llvm.dbg.' in ln):
                    L.append((op_nop, None)); continue
                try:
                    L.append(s.decode_ins(P(tokenize(ln)), bindex))
                except Exception as e:
                    L.append((op_bad, None, 'decode failed in %s: %s  [%s]' % (fname, ln[:160], e)))
            out.append(L)
        # phi pre-processing: for each block, list of (dest, {predname: operand})
        phis = []
        for L in out:
            ph = []
            for ins in L:
                if ins[0] is op_phi: ph.append(ins)
                else: break
            phis.append(ph)
        names = [b[0] for b in f.blocks]
        s.decoded[fname] = (out, phis, names, f)
        return s.decoded[fname]

    def opnd(s, ty, v):
        if v[0] == 'ref' and v[1][0] == '%': return (R, v[1])
        return (C, s.constval(ty, v))

    def decode_ins(s, p, bindex):
        dest = None
        if p.peek()[0] in ('id', 'qid') and p.peek(1)[1] == '=': dest = p.next()[1]; p.next()
        p.skip_attrs(); op = p.next()[1]
        O = s.opnd
        if op in BINOPS:
            p.skip_attrs(); t = p.type(); a = O(t, p.value(t)); p.expect(','); b = O(t, p.value(t)); rt = resolve(t)
            if isinstance(rt, VecT): return (op_vbin, dest, op, resolve(rt.el).n, a, b)
            return (op_bin, dest, op, rt.n, a, b)
        if op in FBINOPS:
            p.skip_attrs(); t = p.type(); a = O(t, p.value(t)); p.expect(','); b = O(t, p.value(t)); rt = resolve(t)
            return (op_fbin, dest, op, rt.k, a, b)
        if op == 'fneg':
            p.skip_attrs(); t = p.type(); a = O(t, p.value(t)); return (op_fneg, dest, resolve(t).k, a)
        if op == 'icmp':
            pred = p.next()[1]; t = p.type(); a = O(t, p.value(t)); p.expect(','); b = O(t, p.value(t)); rt = resolve(t)
            if isinstance(rt, VecT):
                el = resolve(rt.el)
                return (op_vicmp, dest, pred, 64 if isinstance(el, PtrT) else el.n, a, b)
            return (op_icmp, dest, pred, 64 if isinstance(rt, PtrT) else rt.n, a, b)
        if op == 'fcmp':
            p.skip_attrs(); pred = p.next()[1]; t = p.type(); a = O(t, p.value(t)); p.expect(','); b = O(t, p.value(t))
            return (op_fcmp, dest, pred, resolve(t).k, a, b)
        if op in CASTS:
            ft = p.type(); v = O(ft, p.value(ft)); p.expect('to'); tt = p.type()
            return (op_cast, dest, op, resolve(ft), v, resolve(tt))
        if op == 'getelementptr':
            p.skip_attrs(); bt = p.type(); p.expect(','); pt = p.type(); base = O(pt, p.value(pt)); idx = []
            # pre-compute: constant offset + list of (operand, bits, scale)
            cur = bt; coff = 0; dyn = []; n = 0
            while p.accept(','):
                p.skip_attrs(); it = p.type(); iv = p.value(it); bits = resolve(it).n if isinstance(resolve(it), IntT) else 64
                if n == 0: sc = sizeof(cur)
                else:
                    r = resolve(cur)
                    if isinstance(r, StructT):
                        coff += field_off(r, iv[1]); cur = r.els[iv[1]]; n += 1; continue
                    cur = r.el; sc = sizeof(cur)
                o = O(it, iv)
                if o[0] == C: coff += sx(o[1], bits) * sc
                else: dyn.append((o, bits, sc))
                n += 1
            return (op_gep, dest, base, coff, dyn)
        if op == 'load':
            p.skip_attrs(); t = p.type(); p.expect(','); pt = p.type(); a = O(pt, p.value(pt))
            return (op_load, dest, resolve_deep(t), a)
        if op == 'store':
            atomic = p.peek()[1] == 'atomic'
            p.skip_attrs(); t = p.type(); v = O(t, p.value(t)); p.expect(','); pt = p.type(); a = O(pt, p.value(pt))
            return (op_store_atomic if atomic else op_store, dest, resolve_deep(t), v, a)
        if op == 'alloca':
            p.skip_attrs(); t = p.type(); cnt = (C, 1)
            if p.accept(','):
                if p.peek()[1] != 'align':
                    ct = p.type(); cnt = O(ct, p.value(ct))
            return (op_alloca, dest, sizeof(t), cnt)
        if op == 'select':
            p.skip_attrs(); ct_ = p.type(); c = O(ct_, p.value(ct_)); p.expect(','); t = p.type(); a = O(t, p.value(t)); p.expect(','); t2 = p.type(); b = O(t2, p.value(t2))
            rt = resolve(t)
            if isinstance(resolve(ct_), VecT): return (op_vselect, dest, c, a, b, width_of(resolve(rt.el)))
            return (op_select, dest, c, a, b, rt)
        if op == 'freeze':
            t = p.type(); return (op_mov, dest, O(t, p.value(t)))
        if op == 'phi':
            t = p.type(); inc = {}
            while p.accept('['):
                v = p.value(t); p.expect(','); pr = p.next()[1]; p.expect(']'); p.accept(',')
                inc[pr] = O(t, v)
            return (op_phi, dest, inc)
        if op == 'extractelement':
            t = p.type(); v = O(t, p.value(t)); p.expect(','); it = p.type(); i = O(it, p.value(it)); return (op_extractelement, dest, v, i)
        if op == 'insertelement':
            t = p.type(); v = O(t, p.value(t)); p.expect(','); et = p.type(); e = O(et, p.value(et)); p.expect(','); it = p.type(); i = O(it, p.value(it))
            return (op_insertelement, dest, v, e, i)
        if op == 'shufflevector':
            t = p.type(); a = O(t, p.value(t)); p.expect(','); t2 = p.type(); b = O(t2, p.value(t2)); p.expect(','); mt = p.type(); mv = p.value(mt)
            n = resolve(mt).n; an = resolve(t).n
            idxs = [0] * n if mv[0] == 'zero' else ([-1] * n if mv[0] == 'undef' else [(x[1] if x[0] == 'int' else -1) for _, x in mv[1]])
            return (op_shuffle, dest, a, b, idxs, an)
        if op == 'extractvalue':
            t = p.type(); v = O(t, p.value(t)); idx = []
            while p.accept(','): idx.append(int(p.next()[1]))
            return (op_extractvalue, dest, v, idx)
        if op == 'insertvalue':
            t = p.type(); v = O(t, p.value(t)); p.expect(','); et = p.type(); e = O(et, p.value(et)); idx = []
            while p.accept(','): idx.append(int(p.next()[1]))
            return (op_insertvalue, dest, v, e, idx)
        if op == 'br':
            if p.accept('label'): return (op_jmp, None, bindex[p.next()[1]])
            t = p.type(); c = O(t, p.value(t)); p.expect(','); p.expect('label'); a = p.next()[1]; p.expect(','); p.expect('label'); b = p.next()[1]
            return (op_br, None, c, bindex[a], bindex[b])
        if op == 'switch':
            t = p.type(); v = O(t, p.value(t)); p.expect(','); p.expect('label'); dflt = p.next()[1]; p.expect('[')
            arms = []
            while not p.accept(']'):
                ct_ = p.type(); cv = s.constval(ct_, p.value(ct_)); p.expect(','); p.expect('label'); arms.append((cv, bindex[p.next()[1]]))
            return (op_switch, None, v, resolve(t).n, arms, bindex[dflt])
        if op == 'ret':
            t = p.type()
            if isinstance(resolve(t), VoidT): return (op_ret, None, None)
            return (op_ret, None, O(t, p.value(t)))
        if op == 'unreachable': return (op_unreachable, None)
        if op in ('call', 'tail', 'musttail', 'notail', 'invoke'):
            if op in ('tail', 'musttail', 'notail'): p.expect('call')
            p.skip_attrs(); rt = p.type()
            if isinstance(rt, FnT): rt = rt.ret
            if isinstance(resolve(rt), PtrT) and isinstance(resolve(rt).to, FnT): rt = resolve(rt).to.ret
            if p.peek()[1] == 'asm':
                p.next()
                while p.peek()[0] == 'word': p.next()
                asm = p.next()[1]; p.expect(','); cons = p.next()[1]
                callee = ('asm', asm, cons)
            else:
                cv = p.value(PtrT(IntT(8)))
                if cv[0] == 'ref' and cv[1][0] == '@': callee = ('fn', cv[1])
                elif cv[0] == 'ref': callee = ('reg', cv[1])
                else: callee = ('fnaddr', s.constval(PtrT(IntT(8)), cv))
            p.expect('('); args = []
            while not p.accept(')'):
                t = p.type(); p.skip_attrs(); args.append(O(t, p.value(t))); p.accept(',')
            nxt = None
            if op == 'invoke':
                while p.peek()[1] != 'to': p.next()
                p.expect('to'); p.expect('label'); nxt = bindex[p.next()[1]]
            return (op_call, dest, callee, args, resolve(rt), nxt)
        if op == 'fence': return (op_nop, None)
        if op == 'atomicrmw':
            p.skip_attrs(); aop = p.next()[1]; pt = p.type(); a = O(pt, p.value(pt)); p.expect(','); t = p.type(); v = O(t, p.value(t))
            return (op_atomicrmw, dest, aop, resolve(t), a, v)
        if op == 'cmpxchg':
            p.skip_attrs(); pt = p.type(); a = O(pt, p.value(pt)); p.expect(','); t = p.type(); e = O(t, p.value(t)); p.expect(','); t2 = p.type(); n = O(t2, p.value(t2))
            return (op_cmpxchg, dest, resolve(t), a, e, n)
        raise ValueError('unsupported op ' + op)

    # ------------------------------------------------------------------ memory
    def fresh_undef(s, st):
        st.nundef += 1
        k = 'undef!%d!%d' % (st.id, st.nundef)
        v = z3.BitVec(k, 8); s.undefvars[v.get_id()] = v
        return v

    def resolve_addr(s, st, a, n, write):
        """a: concrete address. returns (obj, off) or raises Violation."""
        o = st.find(a)
        if o is None or o.freed or a + n > o.base + o.size:
            what = 'write' if write else 'read'
            if o is None:
                # describe neighbour
                i = bisect.bisect_right(st.bases, a) - 1
                near = ''
                if i >= 0:
                    q = st.objs[st.bases[i]]; near = ' (%d bytes past the end of %s[%d])' % (a - q.base - q.size, q.name, q.size)
                if i + 1 < len(st.bases):
                    q = st.objs[st.bases[i + 1]]
                    if q.base - a <= 64: near += ' (%d bytes before the start of %s[%d])' % (q.base - a, q.name, q.size)
                raise Violation('oob', 'invalid %s of %d bytes at %#x%s' % (what, n, a, near))
            if o.freed: raise Violation('uaf', '%s of %d bytes in freed block %s[%d] at offset %d' % (what, n, o.name, o.size, a - o.base))
            raise Violation('oob', 'out-of-bounds %s of %d bytes at offset %d of %s[%d]' % (what, n, a - o.base, o.name, o.size))
        if write and o.kind == 'const': raise Violation('oob', 'write to constant ' + o.name)
        return o, a - o.base

    def load_bytes(s, st, a, n):
        """returns int or BV(8n)"""
        if type(a) is not int: return s.load_sym(st, a, n)
        o, off = s.resolve_addr(st, a, n, False)
        if st.track is not None: s.on_access(st, o, off, n, False)
        b = o.b
        if n == 1:
            x = b[off]
            if type(x) is int: return x
        bs = b[off:off + n]
        allint = True
        for x in bs:
            if type(x) is not int: allint = False; break
        if allint: return int.from_bytes(bytes(bs), 'little')
        # materialise undef
        if None in bs:
            o = st.wobj(o)
            for i in range(n):
                if o.b[off + i] is None: o.b[off + i] = s.fresh_undef(st)
            bs = o.b[off:off + n]
        # whole-slice fast path
        x0 = bs[0]
        if type(x0) is tuple and x0[1] == 0 and x0[0].size() == 8 * n:
            ok = True
            for i in range(1, n):
                xi = bs[i]
                if type(xi) is not tuple or xi[0] is not x0[0] or xi[1] != i: ok = False; break
            if ok: return x0[0]
        parts = []
        for x in reversed(bs):
            if type(x) is int: parts.append(z3.BitVecVal(x, 8))
            elif type(x) is tuple: parts.append(z3.Extract(8 * x[1] + 7, 8 * x[1], x[0]))
            else: parts.append(x)
        if n == 1: return simp(parts[0])
        return simp(z3.Concat(*parts))

    def store_bytes(s, st, a, n, v):
        if type(a) is not int: return s.store_sym(st, a, n, v)
        o, off = s.resolve_addr(st, a, n, True)
        if st.track is not None: s.on_access(st, o, off, n, True)
        o = st.wobj(o)
        if type(v) is int:
            o.b[off:off + n] = list((v & m(8 * n)).to_bytes(n, 'little'))
        elif n == 1:
            o.b[off] = v
        else:
            o.b[off:off + n] = [(v, i) for i in range(n)]

    def feasible_values(s, st, e, limit=1024):
        """All values the term e can take under the path condition (solver enumeration). Returns [(value, model)]."""
        out = []; extra = []
        while len(out) <= limit:
            if not s.sat(st.pc + extra): break
            mdl = s.last_model
            v = mdl.eval(e, model_completion=True).as_long(); out.append((v, mdl)); extra.append(e != v)
        else:
            raise Inconclusive('symbolic address/size with more than %d feasible values' % limit)
        out.sort(key=lambda t: t[0])
        return out

    tabcache = None

    def load_sym(s, st, a, n):
        c = st.concr.get(a.get_id())
        if c is not None: return s.load_bytes(st, c[1], n)
        if s.tabcache is None: s.tabcache = {}
        key = (a.get_id(), n)
        hit = s.tabcache.get(key)
        if hit is not None: return hit[1]
        v0 = st.model.eval(a, model_completion=True).as_long()
        o0 = st.find(v0)
        if o0 is None or o0.kind != 'const': raise NeedFork(a)
        # read of a constant table at a symbolic index -> if-then-else term over the index values
        vars_ = z3vars(a)
        bits = sum(v.size() for v in vars_.values())
        cacheable = False
        if bits <= 10:
            vl = list(vars_.values()); seen = set()
            for asg in range(1 << bits):
                sub = []; sh = 0
                for v in vl:
                    sub.append((v, z3.BitVecVal((asg >> sh) & m(v.size()), v.size()))); sh += v.size()
                seen.add(z3.simplify(z3.substitute(a, *sub)).as_long())
            vals = sorted(seen); filtered = False
        else:
            return s.load_table(st, a, n, o0, v0)
        good = []; bad = []
        for v in vals:
            q = st.find(v)
            if q is None or q.kind != 'const' or v + n > q.base + q.size: bad.append(v)
            else: good.append(v)
        if bad:
            cond = z3.Or(*[a == v for v in bad])
            if filtered or s.sat(st.pc, cond):
                if not filtered:
                    st.pc.append(cond); st.model = s.last_model
                else:
                    st.pc.append(a == bad[0]); s.sat(st.pc); st.model = s.last_model
                s.resolve_addr(st, bad[0], n, False)   # raises the precise Violation
                raise NeedFork(a)                      # lands in a non-constant object: resolve by forking
        elif not filtered: cacheable = True
        byval = {}
        for v in good:
            x = s.load_bytes(st, v, n)
            byval.setdefault(x, []).append(v)
        items = sorted(byval.items(), key=lambda kv: -len(kv[1]))
        w = 8 * n
        e = z3.BitVecVal(items[0][0], w)
        for val_, addrs in items[1:]:
            e = z3.If(z3.Or(*[a == x for x in addrs]) if len(addrs) > 1 else a == addrs[0], z3.BitVecVal(val_, w), e)
        e = simp(e)
        if cacheable: s.tabcache[key] = (a, e)
        return e

    def load_table(s, st, a, n, o, v0):
        """Read n bytes of constant object o at symbolic address a (wide index expression): one bounds query, a stride
        probe, then an if-then-else term over every in-bounds slot of that stride."""
        lo = o.base; hi = o.base + o.size - n
        oob = z3.Or(z3.ULT(a, lo), z3.UGT(a, hi))
        if s.sat(st.pc, oob):
            st.pc.append(oob); st.model = s.last_model
            bad = s.last_model.eval(a, model_completion=True).as_long()
            s.resolve_addr(st, bad, n, False)      # raises if it is not inside another live object
            raise Inconclusive('table index reaches a second object')
        stride = 1
        for cand in (16, 8, 4, 2):
            r = (v0 - lo) % cand
            if cand <= o.size and not s.sat(st.pc, z3.URem(a - lo, cand) != r):
                stride = cand; break
        r = (v0 - lo) % stride
        slots = list(range(r, o.size - n + 1, stride))
        if len(slots) > 8192: raise Inconclusive('constant table with %d candidate slots' % len(slots))
        byval = {}
        for off in slots:
            x = int.from_bytes(bytes(o.b[off:off + n]), 'little')
            byval.setdefault(x, []).append(lo + off)
        items = sorted(byval.items(), key=lambda kv: -len(kv[1]))
        w = 8 * n
        e = z3.BitVecVal(items[0][0], w)
        for val_, addrs in items[1:]:
            e = z3.If(z3.Or(*[a == x for x in addrs]) if len(addrs) > 1 else a == addrs[0], z3.BitVecVal(val_, w), e)
        return simp(e)

    def store_sym(s, st, a, n, v):
        return s.store_bytes(st, need_int(st, a), n, v)

    def load(s, st, a, t):
        """t: resolved type"""
        if isinstance(t, IntT):
            nb = (t.n + 7) // 8 if t.n <= 64 else 16
            v = s.load_bytes(st, a, nb)
            if t.n < 8 * nb:
                if type(v) is int: return v & m(t.n)
                return simp(z3.Extract(t.n - 1, 0, v))
            return v
        if isinstance(t, PtrT): return s.load_bytes(st, a, 8)
        if isinstance(t, FloatT): return s.load_bytes(st, a, 8 if t.k == 'double' else 4)
        if isinstance(t, VecT):
            el = resolve(t.el)
            if isinstance(el, IntT) and el.n == 1:
                nb = max(1, t.n // 8); v = s.load_bytes(st, a, nb)
                return [bit(v, i) for i in range(t.n)]
            es = sizeof(el)
            return [s.load(st, addadr(a, i * es), el) for i in range(t.n)]
        if isinstance(t, ArrT):
            es = sizeof(t.el); el = resolve(t.el)
            return [s.load(st, addadr(a, i * es), el) for i in range(t.n)]
        if isinstance(t, StructT):
            return [s.load(st, addadr(a, field_off(t, i)), resolve(e)) for i, e in enumerate(t.els)]
        raise ValueError('load type %r' % (t,))

    def store(s, st, a, t, v):
        if isinstance(t, IntT):
            nb = (t.n + 7) // 8 if t.n <= 64 else 16
            if t.n < 8 * nb and type(v) is not int: v = z3.ZeroExt(8 * nb - t.n, v)
            return s.store_bytes(st, a, nb, v)
        if isinstance(t, PtrT): return s.store_bytes(st, a, 8, v)
        if isinstance(t, FloatT): return s.store_bytes(st, a, 8 if t.k == 'double' else 4, v)
        if isinstance(t, VecT):
            el = resolve(t.el); es = sizeof(el)
            for i in range(t.n): s.store(st, addadr(a, i * es), el, v[i])
            return
        if isinstance(t, ArrT):
            el = resolve(t.el); es = sizeof(el)
            for i in range(t.n): s.store(st, addadr(a, i * es), el, v[i])
            return
        if isinstance(t, StructT):
            for i, e in enumerate(t.els): s.store(st, addadr(a, field_off(t, i)), resolve(e), v[i])
            return
        raise ValueError('store type %r' % (t,))

    # ------------------------------------------------------------------ allocation
    def alloc_heap(s, st, size, name, align=16, fill=None):
        a = (st.heap_next + align - 1) // align * align
        st.heap_next = a + size + 1024 + (-(size) % 64)
        o = Obj(a, size, [fill] * size, name, 'heap', st.id); st.add_obj(o); st.live_heap += 1
        return a

    def alloc_at(s, st, addr, size, name, kind='heap', fill=None):
        o = Obj(addr, size, [fill] * size, name, kind, st.id); st.add_obj(o)
        if kind == 'heap': st.live_heap += 1
        return addr

    def alloc_stack(s, st, fr, size):
        a = (st.stack_next + 63) // 64 * 64
        st.stack_next = a + size + 256
        o = Obj(a, size, [None] * size, 'alloca:' + fr.fn, 'stack', st.id); st.add_obj(o); fr.allocas.append(a)
        return a

    def free(s, st, a, what='free'):
        if a == 0: return
        o = st.objs.get(a)
        if o is None or o.kind != 'heap':
            q = st.find(a)
            raise Violation('badfree', '%s of pointer %#x that is not the start of a heap block%s' % (what, a, (' (inside %s[%d] at offset %d)' % (q.name, q.size, a - q.base)) if q else ''))
        if o.freed: raise Violation('doublefree', 'double %s of block %s[%d]' % (what, o.name, o.size))
        o = st.wobj(o); o.freed = True; st.live_heap -= 1

    # ------------------------------------------------------------------ running
    def concretize(s, st, e, limit=1024, what='value'):
        """fork the state over every feasible value of e. Returns list of (state, value)."""
        if type(e) is int: return [(st, e)]
        out = []
        for v, mdl in s.feasible_values(st, e, limit):
            t = st.fork(); t.pc.append(e == v); t.model = mdl; t.concr[e.get_id()] = (e, v)
            out.append((t, v))
        s.stats['forks'] += max(0, len(out) - 1)
        return out

    def run(s, entry, init=None):
        """Explore all paths of `entry` (a zero-argument harness). Returns list of violations."""
        t0 = time.time()
        st = State()
        for o in s.gobjs: st.add_obj(o)
        st.model = s.empty_model()
        if entry not in s.M.funcs: raise ValueError('no function ' + entry)
        work = []
        # global constructors
        ctors = []
        g = s.M.globals.get('@llvm.global_ctors')
        if g is not None and g.get('init') and g['init'][0] == 'agg':
            for t_, el in g['init'][1]:
                fnref = el[1][1][1]
                if fnref[0] == 'ref': ctors.append(fnref[1])
        s.pending_entry = entry
        seq = ctors + [entry]
        s.push_call(st, seq[0], [], None)
        st.seq = seq[1:]
        work.append(st)
        while work:
            st = work.pop()
            try:
                s.exec_path(st, work)
                s.stats['paths'] += 1
                s.on_path_end(st)
            except PathEnd:
                s.stats['infeasible'] += 1
            except Violation as v:
                s.stats['paths'] += 1
                s.record_violation(st, v)
                if s.stop_on_first: break
            if s.stats['paths'] > s.max_paths: raise Inconclusive('path budget %d exceeded' % s.max_paths)
        s.stats['wall'] = time.time() - t0
        return s.violations

    def on_path_end(s, st): pass

    def explore(s, work):
        """DFS over the given work list (shared loop of run / run_parallel)."""
        while work:
            st = work.pop()
            try:
                s.exec_path(st, work)
                s.stats['paths'] += 1
                s.on_path_end(st)
            except PathEnd:
                s.stats['infeasible'] += 1
            except Violation as v:
                s.stats['paths'] += 1
                s.record_violation(st, v)
                if s.stop_on_first: return
            if s.stats['paths'] > s.max_paths: raise Inconclusive('path budget %d exceeded' % s.max_paths)

    def run_parallel(s, entry, nproc=16, split_target=None):
        """Explore breadth-first until there are enough pending states, then fork worker processes that each
        explore a share of them depth-first.  Results (stats, violations, functions seen) are merged."""
        import json, multiprocessing, tempfile
        t0 = time.time()
        if nproc <= 1:
            v = s.run(entry); return v
        s.query_timeout_ms_child = s.query_timeout_ms
        s.solver = None; s.no_timeout = True   # no timeout before forking (z3's timer threads do not survive fork)
        st = State()
        for o in s.gobjs: st.add_obj(o)
        st.model = s.empty_model()
        ctors = []
        g = s.M.globals.get('@llvm.global_ctors')
        if g is not None and g.get('init') and g['init'][0] == 'agg':
            for t_, el in g['init'][1]:
                fnref = el[1][1][1]
                if fnref[0] == 'ref': ctors.append(fnref[1])
        seq = ctors + [entry]
        s.push_call(st, seq[0], [], None); st.seq = seq[1:]
        work = [st]
        target = split_target or nproc * 6
        # breadth-first phase
        while work and len(work) < target:
            st = work.pop(0)
            sub = []
            try:
                s.exec_path(st, sub)
                s.stats['paths'] += 1
            except PathEnd:
                s.stats['infeasible'] += 1
            except Violation as v:
                s.stats['paths'] += 1; s.record_violation(st, v)
                if s.stop_on_first: work = []; break
            work.extend(sub)
            if s.stats['paths'] > 4 * target and len(work) < 2: break
        if not work:
            s.stats['wall'] = time.time() - t0
            return s.violations
        counter = multiprocessing.Value('i', 0)
        tmpd = tempfile.mkdtemp(prefix='llsym_')
        chunks = [[w] for w in work]
        pids = []
        base_stats = dict(s.stats); base_viol = list(s.violations)
        for k in range(nproc):
            pid = os.fork()
            if pid == 0:
                code = 0
                try:
                    s.solver = None; s.no_timeout = False; s.stats = {k_: (0 if isinstance(v_, (int, float)) else v_) for k_, v_ in s.stats.items()}
                    s.violations = []; err = None
                    try:
                        while True:
                            with counter.get_lock():
                                i = counter.value; counter.value += 1
                            if i >= len(chunks): break
                            s.explore(list(chunks[i]))
                            if s.violations and s.stop_on_first: break
                    except Inconclusive as e:
                        err = str(e)
                    except Exception as e:
                        import traceback
                        err = 'engine error: ' + traceback.format_exc()[-1500:]
                    json.dump(dict(stats=s.stats, violations=s.violations, funcs=sorted(s.funcs_seen), err=err),
                              open(os.path.join(tmpd, 'r%d.json' % k), 'w'))
                except BaseException:
                    code = 3
                os._exit(code)
            pids.append(pid)
        bad = None
        for pid in pids:
            _, status = os.waitpid(pid, 0)
            if status != 0: bad = 'worker exited with status %d' % status
        s.stats = base_stats; s.violations = base_viol
        for k in range(nproc):
            p = os.path.join(tmpd, 'r%d.json' % k)
            if not os.path.exists(p):
                bad = bad or 'worker %d produced no result' % k; continue
            r = json.load(open(p))
            for k_, v_ in r['stats'].items():
                if isinstance(v_, (int, float)): s.stats[k_] = s.stats.get(k_, 0) + v_
            s.violations.extend(r['violations']); s.funcs_seen.update(r['funcs'])
            if r['err']: bad = bad or r['err']
        import shutil
        shutil.rmtree(tmpd, ignore_errors=True)
        s.stats['wall'] = time.time() - t0
        if bad: raise Inconclusive(bad)
        return s.violations

    stubs = ()
    no_timeout = False
    _stubcache = None

    def stub_for(s, name):
        if not s.stubs: return None
        if s._stubcache is None: s._stubcache = {}
        if name not in s._stubcache:
            h = None
            for pat, fn in s.stubs:
                if re.search(pat, name): h = fn; break
            s._stubcache[name] = h
        return s._stubcache[name]

    def resolve_ifunc(s, st, name):
        """Run the real ifunc resolver (concretely, on a scratch copy of the state) and return the chosen implementation."""
        if name not in s.ifunc_cache:
            g = s.M.globals[name]
            res = g['target'][1]
            t = st.fork(); t.frames = []; t.seq = []
            s.push_call(t, res, [], None)
            sub = []
            s.exec_path(t, sub)
            if sub: raise Inconclusive('ifunc resolver forked')
            impl = s.addr2fn.get(t.retval)
            if impl is None: raise Inconclusive('ifunc resolver returned a non-function')
            s.ifunc_cache[name] = impl
            s.funcs_seen.add(res)
        return s.ifunc_cache[name]

    # ---- write-set / lockset tracking (C17): see verif_track_* in llsym_ext.py
    track_log = None

    def on_access(s, st, o, off, n, write):
        t = st.track; mode = t['mode']
        if o.kind == 'stack' or o.kind == 'const': return
        if mode == 1:      # read-only operations on a shared document: no write to memory that existed before the region
            if write and o.base in t['epoch'] and o.base not in t['private']:
                raise Violation('race', 'C17: a read-only operation writes shared memory: %s[%d] offset %d (two concurrent readers would race)' % (o.name, o.size, off))
            return
        if mode == 3:      # independent documents: no write to a global object
            if write and o.kind == 'global':
                raise Violation('race', 'C17: operation on an independent document writes the global object %s (threads with their own documents would race)' % o.name)
            return
        if mode == 2:      # lock discipline on the shared pool metadata
            a0 = o.base + off
            hit = False
            for (lo, hi) in t['ranges']:
                if a0 < hi and a0 + n > lo: hit = True; break
            if not hit: return
            held = bool(t['locks'])
            if s.track_log is None: s.track_log = dict(unlocked_reads=set(), locked_writes=set(), locked_accesses=0, unlocked_read_count=0)
            if write and not held:
                raise Violation('race', 'C17: pool metadata written without holding the allocator lock: %s offset %d' % (o.name, off))
            key = ('%s@%#x' % (o.name, o.base), off)
            if write: s.track_log['locked_writes'].add(key)
            elif not held: s.track_log['unlocked_reads'].add(key); s.track_log['unlocked_read_count'] += 1
            if held: s.track_log['locked_accesses'] += 1

    def fresh(s, st, tag, bits):
        st.nundef += 1
        return z3.BitVec('stub!%s!%d!%d' % (tag, st.id, st.nundef), bits)

    def record_violation(s, st, v):
        model = {}
        mdl = st.model
        if st.pc:
            if s.sat(st.pc): mdl = s.last_model
        ins = {}
        for name, kind, vars_ in st.inputs:
            if kind == 'bytes':
                bs = bytes(mdl.eval(x, model_completion=True).as_long() for x in vars_)
                ins[name] = {'hex': bs.hex()}
            else:
                ins[name] = {'int': mdl.eval(vars_, model_completion=True).as_long()}
        where = [f.fn for f in st.frames][-6:]
        s.violations.append(dict(kind=v.kind, msg=v.msg, inputs=ins, stack=where, notes=list(st.notes), order=[n for n, _, _ in st.inputs]))

    def push_call(s, st, fname, args, dest):
        d = s.decoded.get(fname) or s.decode(fname)
        s.funcs_seen.add(fname)
        f = d[3]
        regs = {}
        for (t, n), a in zip(f.params, args): regs[n] = a
        fr = Frame(fname, regs, d, dest)
        st.frames.append(fr)
        if len(st.frames) > 400: raise Inconclusive('call depth > 400')
        return fr

    def exec_path(s, st, work):
        max_steps = s.max_steps
        while True:
            fr = st.frames[-1]
            code = fr.blocks[0]
            L = code[fr.bi]
            # run instructions of the current block until control transfers
            while True:
                ins = L[fr.ii]
                st.steps += 1
                if st.steps > max_steps:
                    s.stats['steps'] += st.steps
                    raise Inconclusive('step budget %d exceeded in %s' % (max_steps, fr.fn))
                try:
                    r = ins[0](s, st, fr, ins)
                except NeedFork as nf:
                    if os.environ.get('LLSYM_DEBUG'): print('NeedFork in', fr.fn, 'ins', ins[0].__name__, str(nf.e)[:300], file=sys.stderr)
                    outs = s.concretize(st, nf.e)
                    for t, v in outs: work.append(t)
                    s.stats['steps'] += st.steps
                    raise PathEnd()
                if r is None:
                    fr.ii += 1; continue
                if r is JUMP:
                    L = code[fr.bi]; continue
                if r is CALL: break
                if r is RET:
                    if not st.frames:
                        if st.seq:
                            nxt = st.seq.pop(0); s.push_call(st, nxt, [], None); break
                        s.stats['steps'] += st.steps
                        return
                    break
                if r is FORK:
                    # ins handler has pushed alternatives into s.pending
                    for t in s.pending: work.append(t)
                    s.pending = []
                    L = code[fr.bi]
                    continue
                if r is DEAD:
                    for t in s.pending: work.append(t)
                    s.pending = []
                    s.stats['steps'] += st.steps
                    raise PathEnd()

    pending = []

    # evaluate operand
    def goto(s, st, fr, target):
        code, phis, names, f = fr.blocks
        prev = names[fr.bi]
        ph = phis[target]
        if ph:
            regs = fr.regs; new = []
            for ins in ph:
                o = ins[2][prev]
                new.append((ins[1], regs[o[1]] if o[0] == R else o[1]))
            for d, v in new: regs[d] = v
        fr.prev = fr.bi; fr.bi = target; fr.ii = len(ph)

    def branch(s, st, fr, c, tA, tB):
        """c: BV1 term.  Continue on the side the cached model takes; fork the other if feasible."""
        cid = c.get_id()
        kn = st.known.get(cid)
        if kn is not None:
            # the same condition term was already decided on this path (e.g. a second pass over the same bytes)
            s.stats['known_hits'] = s.stats.get('known_hits', 0) + 1
            s.goto(st, fr, tA if kn[1] else tB)
            return JUMP
        mv = st.model.eval(c, model_completion=True).as_long()
        other = (c == (1 - mv))
        if s.sat(st.pc, other):
            if s.check_undef: s.undef_check(st, c)
            t = st.fork(); t.pc.append(other); t.model = s.last_model; t.known[cid] = (c, 1 - mv)
            s.goto(t, t.frames[-1], tB if mv else tA)
            s.pending.append(t); s.stats['forks'] += 1
            st.pc.append(c == mv); st.known[cid] = (c, mv)
            s.goto(st, fr, tA if mv else tB)
            return FORK
        st.known[cid] = (c, mv)
        s.goto(st, fr, tA if mv else tB)
        return JUMP

    def undef_check(s, st, c):
        """Both sides of a decision are feasible: does the decision depend on never-written memory?"""
        uv = [v for k, v in z3vars(c).items() if k.startswith('undef!')]
        if not uv: return
        s.stats['undef_checks'] += 1
        # two-copy query: same inputs, different uninitialised bytes, different decision
        allu = {}
        for e in st.pc + [c]:
            for k, v in z3vars(e).items():
                if k.startswith('undef!'): allu[k] = v
        sub = [(v, z3.BitVec(k + "'", 8)) for k, v in allu.items()]
        c2 = z3.substitute(c, *sub)
        pc2 = [z3.substitute(e, *sub) for e in st.pc]
        if s.sat(st.pc + pc2, c != c2):
            st.model = s.last_model
            raise Violation('uninit', 'decision depends on uninitialised memory in ' + st.frames[-1].fn[:120])

    def assume(s, st, c):
        """c: z3 Bool. returns False if path becomes infeasible"""
        if z3.is_true(st.model.eval(c, model_completion=True)):
            st.pc.append(c); return True
        if s.sat(st.pc, c):
            st.pc.append(c); st.model = s.last_model; return True
        return False


def cbin(op, n, a, b):
    if op == 'add': return (a + b) & m(n)
    if op == 'sub': return (a - b) & m(n)
    if op == 'mul': return (a * b) & m(n)
    if op == 'and': return a & b
    if op == 'or': return a | b
    if op == 'xor': return a ^ b
    if op == 'shl': return (a << b) & m(n) if b < n else 0
    if op == 'lshr': return a >> b if b < n else 0
    if op == 'ashr': return (sx(a, n) >> min(b, n - 1)) & m(n)
    if op == 'udiv':
        if b == 0: raise Violation('div0', 'division by zero')
        return a // b
    if op == 'urem':
        if b == 0: raise Violation('div0', 'division by zero')
        return a % b
    if op == 'sdiv':
        if b == 0: raise Violation('div0', 'division by zero')
        x = sx(a, n); y = sx(b, n); q = abs(x) // abs(y)
        return (q if (x < 0) == (y < 0) else -q) & m(n)
    if op == 'srem':
        if b == 0: raise Violation('div0', 'division by zero')
        x = sx(a, n); y = sx(b, n); r_ = abs(x) % abs(y)
        return (r_ if x >= 0 else -r_) & m(n)
    raise ValueError(op)


def resolve_deep(t):
    return resolve(t)


def width_of(rt):
    if isinstance(rt, IntT): return rt.n
    if isinstance(rt, PtrT): return 64
    if isinstance(rt, FloatT): return 64 if rt.k == 'double' else 32
    raise ValueError('width_of %r' % (rt,))


def bit(v, i):
    if type(v) is int: return (v >> i) & 1
    return simp(z3.Extract(i, i, v))


def addadr(a, k):
    if type(a) is int: return (a + k) & M64
    if k == 0: return a
    return simp(a + k)


_vars_memo = {}


def z3vars(e, acc=None, seen=None):
    """free variables of a term: {name: const}.  Memoised per hash-consed sub-term (the memo keeps the terms alive so
    that AST ids cannot be reused)."""
    memo = _vars_memo
    if len(memo) > 400000: memo.clear()
    root = e.get_id()
    hit = memo.get(root)
    if hit is None:
        stack = [(e, False)]
        while stack:
            x, done = stack.pop()
            i = x.get_id()
            if i in memo: continue
            if z3.is_const(x):
                memo[i] = (x, {x.decl().name(): x} if x.decl().kind() == z3.Z3_OP_UNINTERPRETED else {})
                continue
            ch = x.children()
            if not done:
                stack.append((x, True))
                for c in ch:
                    if c.get_id() not in memo: stack.append((c, False))
            else:
                d = None
                for c in ch:
                    cd = memo[c.get_id()][1]
                    if cd:
                        if d is None: d = cd
                        elif d is not cd:
                            if len(cd) > len(d): d, cd = cd, d
                            if any(k not in d for k in cd):
                                d = dict(d); d.update(cd)
                memo[i] = (x, d if d is not None else {})
        hit = memo[root]
    if acc is None: return dict(hit[1]) if False else hit[1]
    acc.update(hit[1]); return acc


class NeedFork(Exception):
    def __init__(s, e): s.e = e


def need_int(st, x):
    if type(x) is int: return x
    c = st.concr.get(x.get_id())
    if c is not None: return c[1]
    raise NeedFork(x)


JUMP = 'jump'; CALL = 'call'; RET = 'ret'; FORK = 'fork'; DEAD = 'dead'
BINOPS = {'add', 'sub', 'mul', 'and', 'or', 'xor', 'shl', 'lshr', 'ashr', 'udiv', 'urem', 'sdiv', 'srem'}
FBINOPS = {'fadd', 'fsub', 'fmul', 'fdiv', 'frem'}
CASTS = {'zext', 'sext', 'trunc', 'bitcast', 'ptrtoint', 'inttoptr', 'sitofp', 'uitofp', 'fptosi', 'fptoui', 'fpext', 'fptrunc', 'addrspacecast'}


def ev(fr, o):
    return fr.regs[o[1]] if o[0] == R else o[1]


def _lowsplit(x, n):
    """x == Concat(hi, lo) with lo a k-bit constant: returns (lo, k); k == n for a python int, 0 if nothing is known."""
    if type(x) is int: return x, n
    try:
        if x.decl().kind() == z3.Z3_OP_CONCAT:
            last = x.arg(x.num_args() - 1)
            if z3.is_bv_value(last): return last.as_long(), last.size()
    except Exception:
        pass
    return 0, 0


def _hi(x, n, k):
    if type(x) is int: return x >> k
    return z3.Extract(n - 1, k, x)


def _lowbits_bin(op, n, a, b):
    """and/or/xor/add/sub when both operands have concretely known low bits (typical for SIMD bitmasks whose upper lanes come
    from never-written padding): compute the low part concretely so that carries do not entangle it with the unknown part."""
    la, ka = _lowsplit(a, n); lb, kb = _lowsplit(b, n)
    k = min(ka, kb)
    if k == 0 or k >= n: return None
    mk = (1 << k) - 1
    la &= mk; lb &= mk
    ha = _hi(a, n, k); hb = _hi(b, n, k); w = n - k
    HA = bv(ha, w); HB = bv(hb, w)
    if op == 'and': lo = la & lb; hi = HA & HB
    elif op == 'or': lo = la | lb; hi = HA | HB
    elif op == 'xor': lo = la ^ lb; hi = HA ^ HB
    elif op == 'add':
        t = la + lb; lo = t & mk; hi = HA + HB + (t >> k) if (t >> k) else HA + HB
    elif op == 'sub':
        t = la - lb; lo = t & mk; hi = HA - HB - 1 if t < 0 else HA - HB
    else: return None
    hi = z3.simplify(hi)
    if z3.is_bv_value(hi): return (hi.as_long() << k) | lo
    return z3.simplify(z3.Concat(hi, z3.BitVecVal(lo, k)))


def sbin(op, n, a, b):
    if type(a) is int and type(b) is int: return cbin(op, n, a, b)
    if op in ('and', 'or', 'xor', 'add', 'sub') and n >= 16:
        r = _lowbits_bin(op, n, a, b)
        if r is not None: return r
    # cheap identities that keep terms concrete
    if op == 'and':
        if a == 0 or b == 0: return 0
    elif op == 'mul':
        if a == 0 or b == 0: return 0
    elif op in ('shl', 'lshr') and type(b) is int and b >= n:
        return 0
    A = bv(a, n); B = bv(b, n)
    if op == 'add': r = A + B
    elif op == 'sub': r = A - B
    elif op == 'mul': r = A * B
    elif op == 'and': r = A & B
    elif op == 'or': r = A | B
    elif op == 'xor': r = A ^ B
    elif op == 'shl': r = A << B
    elif op == 'lshr': r = z3.LShR(A, B)
    elif op == 'ashr': r = A >> B
    elif op == 'udiv': r = z3.UDiv(A, B)
    elif op == 'urem': r = z3.URem(A, B)
    elif op == 'sdiv': r = A / B
    elif op == 'srem': r = z3.SRem(A, B)
    else: raise ValueError(op)
    return simp(r)


def op_bad(E, st, fr, ins): raise Inconclusive(ins[2])


def op_nop(E, st, fr, ins): return None


def op_bin(E, st, fr, ins):
    _, dest, op, n, a, b = ins
    regs = fr.regs
    x = regs[a[1]] if a[0] == R else a[1]
    y = regs[b[1]] if b[0] == R else b[1]
    if type(x) is int and type(y) is int:
        if op == 'add': regs[dest] = (x + y) & ((1 << n) - 1)
        elif op == 'and': regs[dest] = x & y
        elif op == 'sub': regs[dest] = (x - y) & ((1 << n) - 1)
        else: regs[dest] = cbin(op, n, x, y)
        return None
    if op in ('udiv', 'urem', 'sdiv', 'srem') and type(y) is not int:
        # division by a symbolic value: is zero feasible?
        if E.sat(st.pc, y == 0):
            st.pc.append(y == 0); st.model = E.last_model
            raise Violation('div0', 'division by zero')
    regs[dest] = sbin(op, n, x, y)


def op_vbin(E, st, fr, ins):
    _, dest, op, n, a, b = ins
    x = ev(fr, a); y = ev(fr, b)
    fr.regs[dest] = [sbin(op, n, p, q) for p, q in zip(x, y)]


def d2f(bits, k):
    if k == 'double': return struct.unpack('<d', struct.pack('<Q', bits))[0]
    return struct.unpack('<f', struct.pack('<I', bits))[0]


def f2d(x, k):
    if k == 'double': return struct.unpack('<Q', struct.pack('<d', x))[0]
    try:
        return struct.unpack('<I', struct.pack('<f', x))[0]
    except OverflowError:
        return 0x7f800000 if x > 0 else 0xff800000


def fsort(k): return z3.Float64() if k == 'double' else z3.Float32()


def tofp(v, k):
    n = 64 if k == 'double' else 32
    return z3.fpBVToFP(bv(v, n), fsort(k))


def op_fbin(E, st, fr, ins):
    _, dest, op, k, a, b = ins
    x = ev(fr, a); y = ev(fr, b)
    if type(x) is int and type(y) is int:
        fx = d2f(x, k); fy = d2f(y, k)
        try:
            if op == 'fadd': r = fx + fy
            elif op == 'fsub': r = fx - fy
            elif op == 'fmul': r = fx * fy
            elif op == 'fdiv':
                if fy == 0.0:
                    import math
                    if fx == 0.0 or fx != fx: r = float('nan')
                    else: r = math.copysign(float('inf'), fx) * math.copysign(1.0, fy)
                else: r = fx / fy
            else: raise ValueError(op)
        except OverflowError:
            r = float('inf')
        if k == 'float':
            fr.regs[dest] = f2d(r, k)  # double rounding is harmless for + - * / on floats (53 >= 2*24+2)
        else: fr.regs[dest] = f2d(r, k)
        return None
    X = tofp(x, k); Y = tofp(y, k); rm = z3.RNE()
    r = {'fadd': z3.fpAdd, 'fsub': z3.fpSub, 'fmul': z3.fpMul, 'fdiv': z3.fpDiv}[op](rm, X, Y)
    fr.regs[dest] = simp(z3.fpToIEEEBV(r))


def op_fneg(E, st, fr, ins):
    _, dest, k, a = ins
    x = ev(fr, a); n = 64 if k == 'double' else 32
    fr.regs[dest] = sbin('xor', n, x, 1 << (n - 1))


def op_fcmp(E, st, fr, ins):
    _, dest, pred, k, a, b = ins
    x = ev(fr, a); y = ev(fr, b)
    if type(x) is int and type(y) is int:
        fx = d2f(x, k); fy = d2f(y, k); un = (fx != fx) or (fy != fy)
        base = {'eq': fx == fy, 'gt': fx > fy, 'ge': fx >= fy, 'lt': fx < fy, 'le': fx <= fy, 'ne': fx != fy}
        if pred == 'true': r = True
        elif pred == 'false': r = False
        elif pred == 'ord': r = not un
        elif pred == 'uno': r = un
        elif pred[0] == 'o': r = (not un) and base[pred[1:]]
        else: r = un or base[pred[1:]]
        fr.regs[dest] = int(r); return None
    X = tofp(x, k); Y = tofp(y, k)
    un = z3.Or(z3.fpIsNaN(X), z3.fpIsNaN(Y))
    base = {'eq': z3.fpEQ(X, Y), 'gt': z3.fpGT(X, Y), 'ge': z3.fpGEQ(X, Y), 'lt': z3.fpLT(X, Y), 'le': z3.fpLEQ(X, Y), 'ne': z3.Not(z3.fpEQ(X, Y))}
    if pred == 'ord': c = z3.Not(un)
    elif pred == 'uno': c = un
    elif pred[0] == 'o': c = z3.And(z3.Not(un), base[pred[1:]])
    else: c = z3.Or(un, base[pred[1:]])
    fr.regs[dest] = simp(z3.If(c, z3.BitVecVal(1, 1), z3.BitVecVal(0, 1)))


def sicmp(pred, n, a, b):
    if type(a) is int and type(b) is int:
        if pred[0] == 's' and len(pred) == 3: a = sx(a, n); b = sx(b, n)
        if pred == 'eq': return int(a == b)
        if pred == 'ne': return int(a != b)
        p = pred[1:]
        if p == 'gt': return int(a > b)
        if p == 'ge': return int(a >= b)
        if p == 'lt': return int(a < b)
        return int(a <= b)
    A = bv(a, n); B = bv(b, n)
    if pred == 'eq': c = A == B
    elif pred == 'ne': c = A != B
    elif pred == 'ugt': c = z3.UGT(A, B)
    elif pred == 'uge': c = z3.UGE(A, B)
    elif pred == 'ult': c = z3.ULT(A, B)
    elif pred == 'ule': c = z3.ULE(A, B)
    elif pred == 'sgt': c = A > B
    elif pred == 'sge': c = A >= B
    elif pred == 'slt': c = A < B
    elif pred == 'sle': c = A <= B
    else: raise ValueError(pred)
    return simp(z3.If(c, z3.BitVecVal(1, 1), z3.BitVecVal(0, 1)))


def op_icmp(E, st, fr, ins):
    _, dest, pred, n, a, b = ins
    regs = fr.regs
    x = regs[a[1]] if a[0] == R else a[1]
    y = regs[b[1]] if b[0] == R else b[1]
    regs[dest] = sicmp(pred, n, x, y)


def op_vicmp(E, st, fr, ins):
    _, dest, pred, n, a, b = ins
    x = ev(fr, a); y = ev(fr, b)
    fr.regs[dest] = [sicmp(pred, n, p, q) for p, q in zip(x, y)]


def cast1(E, op, rf, v, rt):
    if op in ('bitcast', 'ptrtoint', 'inttoptr', 'addrspacecast'):
        if op == 'ptrtoint' and rt.n < 64:
            return v & m(rt.n) if type(v) is int else simp(z3.Extract(rt.n - 1, 0, v))
        if op == 'inttoptr' and rf.n < 64:
            return v if type(v) is int else simp(z3.ZeroExt(64 - rf.n, v))
        return v
    if op == 'trunc':
        if type(v) is int: return v & m(rt.n)
        return simp(z3.Extract(rt.n - 1, 0, v))
    if op == 'zext':
        if type(v) is int: return v
        return simp(z3.ZeroExt(rt.n - rf.n, v))
    if op == 'sext':
        if type(v) is int: return sx(v, rf.n) & m(rt.n)
        return simp(z3.SignExt(rt.n - rf.n, v))
    if op in ('sitofp', 'uitofp'):
        k = rt.k
        if type(v) is int:
            x = sx(v, rf.n) if op == 'sitofp' else v
            return f2d(float(x), k)  # python int->float is round-to-nearest-even
        V = bv(v, rf.n)
        r = z3.fpSignedToFP(z3.RNE(), V, fsort(k)) if op == 'sitofp' else z3.fpUnsignedToFP(z3.RNE(), V, fsort(k))
        return simp(z3.fpToIEEEBV(r))
    if op in ('fptosi', 'fptoui'):
        k = rf.k
        if type(v) is int:
            f = d2f(v, k)
            if f != f or f in (float('inf'), float('-inf')): return 0
            return int(f) & m(rt.n)
        X = tofp(v, k)
        r = z3.fpToSBV(z3.RTZ(), X, z3.BitVecSort(rt.n)) if op == 'fptosi' else z3.fpToUBV(z3.RTZ(), X, z3.BitVecSort(rt.n))
        return simp(r)
    if op == 'fpext':
        if type(v) is int: return f2d(d2f(v, 'float'), 'double')
        return simp(z3.fpToIEEEBV(z3.fpFPToFP(z3.RNE(), tofp(v, 'float'), z3.Float64())))
    if op == 'fptrunc':
        if type(v) is int: return f2d(d2f(v, 'double'), 'float')
        return simp(z3.fpToIEEEBV(z3.fpFPToFP(z3.RNE(), tofp(v, 'double'), z3.Float32())))
    raise ValueError(op)


def vec_to_int(v, w):
    """little-endian concat of lanes (list) into one value"""
    allint = True
    for x in v:
        if type(x) is not int: allint = False; break
    if allint:
        r = 0
        for i, x in enumerate(v): r |= (x & m(w)) << (w * i)
        return r
    return simp(z3.Concat(*[bv(x, w) for x in reversed(v)]))


def int_to_vec(v, w, n):
    if type(v) is int: return [(v >> (w * i)) & m(w) for i in range(n)]
    return [simp(z3.Extract(w * i + w - 1, w * i, v)) for i in range(n)]


def op_cast(E, st, fr, ins):
    _, dest, op, rf, o, rt = ins
    v = fr.regs[o[1]] if o[0] == R else o[1]
    if isinstance(rf, VecT) or isinstance(rt, VecT):
        if op == 'bitcast':
            if isinstance(rf, VecT) and isinstance(rt, VecT):
                wf = width_of(resolve(rf.el)); wt = width_of(resolve(rt.el))
                if wf == wt: fr.regs[dest] = v; return None
                fr.regs[dest] = int_to_vec(vec_to_int(v, wf), wt, rt.n); return None
            if isinstance(rf, VecT):
                fr.regs[dest] = vec_to_int(v, width_of(resolve(rf.el))); return None
            fr.regs[dest] = int_to_vec(v, width_of(resolve(rt.el)), rt.n); return None
        ef = resolve(rf.el); et = resolve(rt.el)
        fr.regs[dest] = [cast1(E, op, ef, x, et) for x in v]; return None
    fr.regs[dest] = cast1(E, op, rf, v, rt)


def op_gep(E, st, fr, ins):
    _, dest, base, coff, dyn = ins
    regs = fr.regs
    a = regs[base[1]] if base[0] == R else base[1]
    if isinstance(a, list):  # vector of pointers (rare)
        raise Inconclusive('vector GEP')
    off = coff
    symoff = None
    for o, bits, sc in dyn:
        iv = regs[o[1]]
        if type(iv) is int: off += sx(iv, bits) * sc
        else:
            t = iv if bits == 64 else z3.SignExt(64 - bits, iv)
            t = t * sc if sc != 1 else t
            symoff = t if symoff is None else symoff + t
    if symoff is None and type(a) is int:
        regs[dest] = (a + off) & M64; return None
    r = bv(a, 64)
    if symoff is not None: r = r + symoff
    if off: r = r + z3.BitVecVal(off & M64, 64)
    regs[dest] = simp(r)


def op_load(E, st, fr, ins):
    _, dest, t, a = ins
    addr = fr.regs[a[1]] if a[0] == R else a[1]
    if type(addr) is not int and not isinstance(t, (IntT, PtrT, FloatT)): addr = need_int(st, addr)
    fr.regs[dest] = E.load(st, addr, t)


def op_store(E, st, fr, ins):
    _, dest, t, v, a = ins
    addr = fr.regs[a[1]] if a[0] == R else a[1]
    val = fr.regs[v[1]] if v[0] == R else v[1]
    if type(addr) is not int: addr = need_int(st, addr)
    E.store(st, addr, t, val)


def op_store_atomic(E, st, fr, ins):
    op_store(E, st, fr, ins)
    if st.track is not None and st.track['mode'] == 2:
        _, dest, t, v, a = ins
        addr = fr.regs[a[1]] if a[0] == R else a[1]; val = fr.regs[v[1]] if v[0] == R else v[1]
        if type(addr) is int and val == 0: st.track['locks'].discard(addr)      # spin-lock released


def op_alloca(E, st, fr, ins):
    _, dest, sz, cnt = ins
    c = need_int(st, ev(fr, cnt))
    fr.regs[dest] = E.alloc_stack(st, fr, sz * c)


def sel(c, a, b, n):
    if type(c) is int: return a if c else b
    if type(a) is int and type(b) is int and a == b: return a
    return simp(z3.If(c == 1, bv(a, n), bv(b, n)))


def sel_any(c, a, b, rt):
    rt = resolve(rt)
    if isinstance(rt, (VecT, ArrT)):
        return [sel_any(c, x, y, rt.el) for x, y in zip(a, b)]
    if isinstance(rt, StructT):
        return [sel_any(c, x, y, e) for x, y, e in zip(a, b, rt.els)]
    return sel(c, a, b, width_of(rt))


def op_select(E, st, fr, ins):
    _, dest, c, a, b, rt = ins
    cv = ev(fr, c)
    if type(cv) is int:
        fr.regs[dest] = ev(fr, a) if cv else ev(fr, b); return None
    fr.regs[dest] = sel_any(cv, ev(fr, a), ev(fr, b), rt)


def op_vselect(E, st, fr, ins):
    _, dest, c, a, b, w = ins
    fr.regs[dest] = [sel(ci, x, y, w) for ci, x, y in zip(ev(fr, c), ev(fr, a), ev(fr, b))]


def op_mov(E, st, fr, ins): fr.regs[ins[1]] = ev(fr, ins[2])


def op_phi(E, st, fr, ins): raise Inconclusive('phi executed directly')


def op_extractelement(E, st, fr, ins):
    _, dest, v, i = ins
    idx = need_int(st, ev(fr, i))
    fr.regs[dest] = ev(fr, v)[idx]


def op_insertelement(E, st, fr, ins):
    _, dest, v, e, i = ins
    idx = need_int(st, ev(fr, i))
    x = list(ev(fr, v)); x[idx] = ev(fr, e); fr.regs[dest] = x


def op_shuffle(E, st, fr, ins):
    _, dest, a, b, idxs, an = ins
    x = ev(fr, a); y = ev(fr, b)
    fr.regs[dest] = [0 if ix < 0 else (x[ix] if ix < an else y[ix - an]) for ix in idxs]


def op_extractvalue(E, st, fr, ins):
    _, dest, v, idx = ins
    x = ev(fr, v)
    for i in idx: x = x[i]
    fr.regs[dest] = x


def op_insertvalue(E, st, fr, ins):
    _, dest, v, e, idx = ins
    def rec(x, idx):
        x = list(x)
        if len(idx) == 1: x[idx[0]] = ev(fr, e)
        else: x[idx[0]] = rec(x[idx[0]], idx[1:])
        return x
    fr.regs[dest] = rec(ev(fr, v), idx)


def op_jmp(E, st, fr, ins):
    E.goto(st, fr, ins[2]); return JUMP


def op_br(E, st, fr, ins):
    _, _, c, a, b = ins
    cv = fr.regs[c[1]] if c[0] == R else c[1]
    if type(cv) is int:
        E.goto(st, fr, a if cv else b); return JUMP
    return E.branch(st, fr, cv, a, b)


def op_switch(E, st, fr, ins):
    _, _, v, n, arms, dflt = ins
    x = ev(fr, v)
    if type(x) is int:
        for cv, tg in arms:
            if cv == x: E.goto(st, fr, tg); return JUMP
        E.goto(st, fr, dflt); return JUMP
    # group arms by target
    bytarget = {}
    for cv, tg in arms: bytarget.setdefault(tg, []).append(cv)
    conds = []
    for tg, cvs in bytarget.items():
        conds.append((tg, z3.Or(*[x == cv for cv in cvs]) if len(cvs) > 1 else x == cvs[0]))
    conds.append((dflt, z3.And(*[x != cv for cv, _ in arms])))
    feas = []
    for tg, cond in conds:
        if E.sat(st.pc, cond): feas.append((tg, cond, E.last_model))
    if len(feas) > 1 and E.check_undef: E.undef_check(st, x)
    for tg, cond, mdl in feas:
        t = st.fork(); t.pc.append(cond); t.model = mdl
        E.goto(t, t.frames[-1], tg); E.pending.append(t)
    E.stats['forks'] += max(0, len(feas) - 1)
    return DEAD


def op_ret(E, st, fr, ins):
    v = None
    if ins[2] is not None: v = ev(fr, ins[2])
    for a in fr.allocas:
        o = st.objs.get(a)
        if o is not None:
            del st.objs[a]
            i = bisect.bisect_left(st.bases, a); del st.bases[i]
    st.frames.pop()
    if st.frames:
        caller = st.frames[-1]
        if fr.dest is not None: caller.regs[fr.dest] = v
        cins = caller.blocks[0][caller.bi][caller.ii]
        if cins[0] is op_call and cins[5] is not None:
            E.goto(st, caller, cins[5])
        else:
            caller.ii += 1
    else:
        st.retval = v
    return RET


def op_unreachable(E, st, fr, ins):
    raise Violation('unreachable', 'reached an unreachable instruction in ' + fr.fn)


def op_atomicrmw(E, st, fr, ins):
    _, dest, aop, t, a, v = ins
    addr = ev(fr, a); val = ev(fr, v)
    old = E.load(st, addr, t)
    n = t.n if isinstance(t, IntT) else 64
    if aop == 'xchg':
        new = val
        if st.track is not None and st.track['mode'] == 2 and type(addr) is int:
            ov = old if type(old) is int else need_int(st, old)
            if val == 1 and ov == 0: st.track['locks'].add(addr)       # spin-lock acquired
            old = ov
    elif aop in ('add', 'sub', 'and', 'or', 'xor'): new = sbin(aop, n, old, val)
    else: raise Inconclusive('atomicrmw ' + aop)
    E.store(st, addr, t, new)
    fr.regs[dest] = old


def op_cmpxchg(E, st, fr, ins):
    _, dest, t, a, e, nv = ins
    addr = ev(fr, a); exp = ev(fr, e); new = ev(fr, nv)
    old = E.load(st, addr, t)
    n = width_of(t)
    eq = sicmp('eq', n, old, exp)
    eq = need_int(st, eq)
    if eq: E.store(st, addr, t, new)
    fr.regs[dest] = [old, eq]


def op_call(E, st, fr, ins):
    _, dest, callee, aops, rt, nxt = ins
    regs = fr.regs
    args = [(regs[o[1]] if o[0] == R else o[1]) for o in aops]
    kind = callee[0]
    if kind == 'fn': name = callee[1]
    elif kind == 'asm':
        r = inline_asm(E, st, callee[1], callee[2], args)
        if dest is not None: regs[dest] = r
        return None
    else:
        a = regs[callee[1]] if kind == 'reg' else callee[1]
        a = need_int(st, a)
        name = E.addr2fn.get(a)
        if name is None: raise Violation('badcall', 'indirect call to non-function address %#x' % a)
    g_ = E.M.globals.get(name)
    if g_ is not None and g_.get('kind') == 'ifunc':
        name = E.resolve_ifunc(st, name)
    elif g_ is not None and g_.get('kind') == 'alias':
        tg = g_['target']
        while tg[0] == 'ccast': tg = tg[3]
        if tg[0] == 'ref': name = tg[1]
    if name in E.M.funcs:
        h = E.stub_for(name)
        if h is not None:
            r = h(E, st, fr, args)
            if r is not REAL:
                if dest is not None: regs[dest] = r
                if nxt is not None:
                    E.goto(st, fr, nxt); return JUMP
                return None
        E.push_call(st, name, args, dest)
        return CALL
    import llsym_ext
    r = llsym_ext.external_call(E, st, fr, name[1:], rt, args)
    if dest is not None: regs[dest] = r
    if nxt is not None:
        E.goto(st, fr, nxt); return JUMP
    return None


REAL = 'real'


def inline_asm(E, st, asm, cons, args):
    if 'bzhil' in asm and '$1, $2' in asm.replace('%', '$'):
        # __asm__("bzhil %1, %2, %[result]" : "=r"(mask) : "r"((int)s), "r"(mask))   (AT&T: index, source, destination)
        import llsym_ext
        return llsym_ext.x86(E, st, 'llvm.x86.bmi.bzhi.32', [args[1], args[0]])
    if asm.strip('"') == '':
        return args[0] if args else None
    raise Inconclusive('inline asm: ' + asm)
