"""Stubs for the four text->double back ends, used by WHOLE-PARSER runs only (C01-C03, C10...), as DESIGN.md
'Numbers inside whole-parser runs' states: the back ends execute for real when the path pins (man, exp10) to one
value; otherwise they are replaced by an unconstrained finite double and the path is recorded as
'number value not decided here'.  Their numeric correctness is C04's subject and is checked there on the real code."""
import z3
from llsym import REAL, simp


_F = {}


def _fn(name, *sorts):
    if name not in _F: _F[name] = z3.Function(name, *sorts)
    return _F[name]


def _b(x, n): return x if type(x) is not int else z3.BitVecVal(x, n)


def _finite(E, st, v):
    # exponent field != 0x7ff
    return E.assume(st, z3.Extract(62, 52, v) != 0x7ff)


def _sym(*xs): return any(type(x) is not int for x in xs)


def _pin(E, st, a, idxs):
    """If the path condition pins every scalar argument a[i] (i in idxs) to one value, replace it by that value (the real
    back end then runs on concrete arguments).  Returns True if all are pinned."""
    vals = {}
    for i in idxs:
        x = a[i]
        if type(x) is int: continue
        v = st.model.eval(x, model_completion=True).as_long()
        if E.sat(st.pc, x != v): return False
        vals[i] = v
    for i, v in vals.items(): a[i] = v
    return True


# The stubs are UNINTERPRETED FUNCTIONS of their scalar arguments: the same (mantissa, exponent, sign) gives the same
# (unknown, finite) double every time, so parsing the same text twice yields equal values.
def stub_parseFloatingFast(E, st, fr, a):
    if _pin(E, st, a, (2, 3)): return REAL
    this, dptr, exp10, man = a
    B64 = z3.BitVecSort(64); B32 = z3.BitVecSort(32); B1 = z3.BitVecSort(1)
    v = _fn('stub!pff', B32, B64, B64)(_b(exp10, 32), _b(man, 64)); _finite(E, st, v)
    E.store_bytes(st, dptr, 8, v)
    st.notes.append(('number-stub', 'parseFloatingFast'))
    E.stats['number_stub'] = E.stats.get('number_stub', 0) + 1
    # returns false only when exp10 > 22 and the intermediate exceeds 1e15; over-approximated by a free (but functional) bit
    if type(exp10) is int and exp10 <= 22: return 1
    return _fn('stub!pffret', B32, B64, B1)(_b(exp10, 32), _b(man, 64))


def stub_ParseFloatingNormalFast(E, st, fr, a):
    if _pin(E, st, a, (1, 2, 3)): return REAL
    rawptr, exp10, man, sgn = a
    B64 = z3.BitVecSort(64); B32 = z3.BitVecSort(32); B1 = z3.BitVecSort(1)
    v = _fn('stub!pfnf', B32, B64, B32, B64)(_b(exp10, 32), _b(man, 64), _b(sgn, 32)); _finite(E, st, v)
    E.store_bytes(st, rawptr, 8, v)
    st.notes.append(('number-stub', 'ParseFloatingNormalFast'))
    E.stats['number_stub'] = E.stats.get('number_stub', 0) + 1
    return _fn('stub!pfnfret', B32, B64, B1)(_b(exp10, 32), _b(man, 64))


def stub_parseFloatEiselLemire64(E, st, fr, a):
    if _pin(E, st, a, (2, 3, 4, 5)): return REAL
    this, dptr, exp10, man, sgn, trunc, s_ = a
    # outside the stub's contract: decimal exponents where overflow to infinity is possible (man < 2^64 < 1.9e19).
    e = exp10 if type(exp10) is not int else z3.BitVecVal(exp10, 32)
    from llsym import PathEnd
    if not E.assume(st, z3.And(e > -400, e < 280)):
        E.stats['number_stub_dropped'] = E.stats.get('number_stub_dropped', 0) + 1
        raise PathEnd()
    B64 = z3.BitVecSort(64); B32 = z3.BitVecSort(32); B8 = z3.BitVecSort(8)
    v = _fn('stub!pfel', B32, B64, B32, B8, B64)(_b(exp10, 32), _b(man, 64), _b(sgn, 32), _b(trunc, 8) if type(trunc) is int or trunc.size() == 8 else z3.ZeroExt(8 - trunc.size(), trunc)); _finite(E, st, v)
    E.store_bytes(st, dptr, 8, v)
    st.notes.append(('number-stub', 'parseFloatEiselLemire64'))
    E.stats['number_stub'] = E.stats.get('number_stub', 0) + 1
    return 0


KEEP = ['parseFloatingFast', 'ParseFloatingNormalFast', 'parseFloatEiselLemire64', 'AtofNative']
STUBS = [(r'parseFloatingFast', stub_parseFloatingFast), (r'ParseFloatingNormalFast', stub_ParseFloatingNormalFast),
         (r'6Parser23parseFloatEiselLemire64ERdimibPKc$', stub_parseFloatEiselLemire64)]
