"""Stubs for the four text->double back ends, used by WHOLE-PARSER runs only (C01-C03, C10...), as DESIGN.md
'Numbers inside whole-parser runs' states: the back ends execute for real when the path pins (man, exp10) to one
value; otherwise they are replaced by an unconstrained finite double and the path is recorded as
'number value not decided here'.  Their numeric correctness is C04's subject and is checked there on the real code."""
import z3
from llsym import REAL, simp


def _finite(E, st, v):
    # exponent field != 0x7ff
    return E.assume(st, z3.Extract(62, 52, v) != 0x7ff)


def _sym(*xs): return any(type(x) is not int for x in xs)


def stub_parseFloatingFast(E, st, fr, a):
    this, dptr, exp10, man = a
    if not _sym(exp10, man): return REAL
    v = E.fresh(st, 'dbl', 64); _finite(E, st, v)
    E.store_bytes(st, dptr, 8, v)
    st.notes.append(('number-stub', 'parseFloatingFast'))
    E.stats['number_stub'] = E.stats.get('number_stub', 0) + 1
    # returns false only when exp10 > 22 and the intermediate exceeds 1e15; over-approximated by a free bit
    if type(exp10) is int and exp10 <= 22: return 1
    return E.fresh(st, 'pffret', 1)


def stub_ParseFloatingNormalFast(E, st, fr, a):
    rawptr, exp10, man, sgn = a
    if not _sym(exp10, man, sgn): return REAL
    v = E.fresh(st, 'dbl', 64); _finite(E, st, v)
    E.store_bytes(st, rawptr, 8, v)
    st.notes.append(('number-stub', 'ParseFloatingNormalFast'))
    E.stats['number_stub'] = E.stats.get('number_stub', 0) + 1
    return E.fresh(st, 'pfnfret', 1)


def stub_parseFloatEiselLemire64(E, st, fr, a):
    this, dptr, exp10, man, sgn, trunc, s_ = a
    if not _sym(exp10, man, sgn, trunc): return REAL
    # outside the stub's contract: decimal exponents where overflow to infinity is possible (man < 2^64 < 1.9e19).
    e = exp10 if type(exp10) is not int else z3.BitVecVal(exp10, 32)
    from llsym import PathEnd
    if not E.assume(st, z3.And(e > -400, e < 280)):
        E.stats['number_stub_dropped'] = E.stats.get('number_stub_dropped', 0) + 1
        raise PathEnd()
    v = E.fresh(st, 'dbl', 64); _finite(E, st, v)
    E.store_bytes(st, dptr, 8, v)
    st.notes.append(('number-stub', 'parseFloatEiselLemire64'))
    E.stats['number_stub'] = E.stats.get('number_stub', 0) + 1
    return 0


KEEP = ['parseFloatingFast', 'ParseFloatingNormalFast', 'parseFloatEiselLemire64', 'AtofNative']
STUBS = [(r'parseFloatingFast', stub_parseFloatingFast), (r'ParseFloatingNormalFast', stub_ParseFloatingNormalFast),
         (r'6Parser23parseFloatEiselLemire64ERdimibPKc$', stub_parseFloatEiselLemire64)]
