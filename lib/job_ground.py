#!/usr/bin/env python3
"""Ground obligations over constant tables: the table is read from the INITIALISER IN THE IR of the real headers (not from the
header text) and every row is compared with its defining formula in exact integer arithmetic.  One JSON spec in, one JSON
result line out.  A mismatching row is reported as a violation of kind 'table' (the row index and both values)."""
import sys, os, json, time, math
from fractions import Fraction
sys.path.insert(0, os.path.dirname(os.path.abspath(__file__)))
import ll2c


def norm128(k):
    v = Fraction(10) ** k
    e = v.numerator.bit_length() - v.denominator.bit_length()
    if v < Fraction(2) ** e: e -= 1
    return v / Fraction(2) ** (e - 127)          # in [2^127, 2^128)


def main():
    spec = json.load(open(sys.argv[1])); t0 = time.time(); x = spec['extra']
    res = dict(name=spec['name'], status='pass', violations=[], stats=dict(paths=0, queries=0, qtime=0.0, steps=0, checks=0), funcs=[], extra={})
    try:
        ll2c.M = ll2c.Module(); ll2c.parse_module(open(spec['ll']).read())
        tab = None
        for g in ll2c.M.globals.values():
            if g['kind'] == 'var' and g['init'] is not None and x['symbol'] in g['name']: tab = g; break
        if tab is None: raise RuntimeError('table %s not found in the IR' % x['symbol'])
        b = ll2c.const_bytes(tab['ty'], tab['init'], [], 0)
        rows = len(b) // 16
        checked = 0; bad = []
        for i in range(rows):
            w0 = int.from_bytes(b[16 * i:16 * i + 8], 'little'); w1 = int.from_bytes(b[16 * i + 8:16 * i + 16], 'little')
            k = i + x['k0']
            if k > x['kmax']: continue
            if x['formula'] == 'ceil_hi_lo': got = (w0 << 64) | w1; want = math.ceil(norm128(k))
            elif x['formula'] == 'floor_lo_hi': got = (w1 << 64) | w0; want = math.floor(norm128(k))
            else: raise RuntimeError('formula')
            checked += 1
            if got != want: bad.append((k, hex(got), hex(want)))
        res['stats']['paths'] = checked; res['stats']['checks'] = checked; res['stats']['steps'] = rows
        res['extra'] = dict(table=tab['name'], rows=rows, rows_checked=checked, formula=x['formula'])
        res['samples'] = [dict(row_k=x['k0'], note='first row compared with its formula in exact arithmetic')]
        for k, got, want in bad[:5]:
            res['violations'].append(dict(kind='table', msg='%s: row for 10^%d is %s, its definition gives %s' % (x['what'], k, got, want), inputs={'row': {'int': k & ((1 << 64) - 1)}}, order=['row'], stack=[], notes=[]))
        if bad: res['status'] = 'violation'
    except Exception as e:
        import traceback
        res['status'] = 'error'; res['error'] = traceback.format_exc()[-1500:]
    res['engine_wall'] = time.time() - t0
    print(json.dumps(res))


main()
