/* C models of the x86 intrinsics that survive in clang's IR (straight-line, no loops) */
#define LL_R4(M,b) M(b+0) M(b+1) M(b+2) M(b+3)
#define LL_R8(M,b) LL_R4(M,b) LL_R4(M,b+4)
#define LL_R16(M,b) LL_R8(M,b) LL_R8(M,b+8)
#define LL_R32(M,b) LL_R16(M,b) LL_R16(M,b+16)
#ifdef HAVE_v32i8
#define LL_PSHUFB32(i) r.e[i]=(b.e[i]&0x80)?0:a.e[((i)&16)+(b.e[i]&15)];
static inline v32i8 ll_x86_avx2_pshuf_b(v32i8 a, v32i8 b){ v32i8 r; LL_R32(LL_PSHUFB32,0) return r; }
#endif
#ifdef HAVE_v16i8
#define LL_PSHUFB16(i) r.e[i]=(b.e[i]&0x80)?0:a.e[b.e[i]&15];
static inline v16i8 ll_x86_ssse3_pshuf_b_128(v16i8 a, v16i8 b){ v16i8 r; LL_R16(LL_PSHUFB16,0) return r; }
#endif
#ifdef HAVE_v8i16
#define LL_PMULHUW(i) r.e[i]=(uint16_t)(((uint32_t)a.e[i]*(uint32_t)b.e[i])>>16);
static inline v8i16 ll_x86_sse2_pmulhu_w(v8i16 a, v8i16 b){ v8i16 r; LL_R8(LL_PMULHUW,0) return r; }
#ifdef HAVE_v16i8
static inline uint8_t ll_sat_u8(int16_t x){ return x<0?0:(x>255?255:(uint8_t)x); }
#define LL_PACKUSWB(i) r.e[i]=ll_sat_u8((int16_t)a.e[i]); r.e[8+(i)]=ll_sat_u8((int16_t)b.e[i]);
static inline v16i8 ll_x86_sse2_packuswb_128(v8i16 a, v8i16 b){ v16i8 r; LL_R8(LL_PACKUSWB,0) return r; }
static inline uint16_t ll_sat_s16(int32_t s){ if(s>32767)s=32767; if(s<-32768)s=-32768; return (uint16_t)(int16_t)s; }
#define LL_PMADDUBSW(i) r.e[i]=ll_sat_s16((int32_t)a.e[2*(i)]*(int8_t)b.e[2*(i)]+(int32_t)a.e[2*(i)+1]*(int8_t)b.e[2*(i)+1]);
static inline v8i16 ll_x86_ssse3_pmadd_ub_sw_128(v16i8 a, v16i8 b){ v8i16 r; LL_R8(LL_PMADDUBSW,0) return r; }
#endif
#ifdef HAVE_v4i32
#define LL_PMADDWD(i) r.e[i]=(uint32_t)((int32_t)(int16_t)a.e[2*(i)]*(int16_t)b.e[2*(i)]+(int32_t)(int16_t)a.e[2*(i)+1]*(int16_t)b.e[2*(i)+1]);
static inline v4i32 ll_x86_sse2_pmadd_wd(v8i16 a, v8i16 b){ v4i32 r; LL_R4(LL_PMADDWD,0) return r; }
static inline uint16_t ll_sat_u16(int32_t x){ return x<0?0:(x>65535?65535:(uint16_t)x); }
#define LL_PACKUSDW(i) r.e[i]=ll_sat_u16((int32_t)a.e[i]); r.e[4+(i)]=ll_sat_u16((int32_t)b.e[i]);
static inline v8i16 ll_x86_sse41_packusdw(v4i32 a, v4i32 b){ v8i16 r; LL_R4(LL_PACKUSDW,0) return r; }
#endif
#endif
#ifdef HAVE_v2i64
#define LL_CLMUL(i) if((y>>(i))&1){ lo^= x<<(i); if(i) hi^= x>>((64-(i))&63); }
static inline v2i64 ll_x86_pclmulqdq(v2i64 a, v2i64 b, uint8_t imm){ uint64_t x=a.e[imm&1], y=b.e[(imm>>4)&1]; uint64_t lo=0,hi=0; LL_R32(LL_CLMUL,0) LL_R32(LL_CLMUL,32) v2i64 r; r.e[0]=lo; r.e[1]=hi; return r; }
#endif
