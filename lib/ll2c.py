#!/usr/bin/env python3
"""Prototype LLVM-IR (clang-14 textual, typed pointers) -> C translator for CBMC.
All pointers are uint8_t*; memory is bytes; GEPs become byte offsets computed
from the IR types with the x86-64 data layout."""
import re, sys

# ------------------------------------------------------------------ tokenizer
TOK = re.compile(r'''
   (?P<ws>\s+)
 | (?P<str>c"(?:[^"])*")
 | (?P<qid>[%@]"(?:[^"])*")
 | (?P<qstr>"(?:[^"])*")
 | (?P<id>[%@][-a-zA-Z$._0-9]+)
 | (?P<meta>![-a-zA-Z$._0-9]*)
 | (?P<attr>\#\d+)
 | (?P<hex>0x[KLMHR]?[0-9a-fA-F]+)
 | (?P<num>-?\d+(?:\.\d+(?:[eE][-+]?\d+)?)?)
 | (?P<word>[a-zA-Z_][a-zA-Z_0-9.]*)
 | (?P<dots>\.\.\.)
 | (?P<p>[\[\]{}()<>,=*:])
''', re.X)

def tokenize(s):
    out = []; i = 0
    while i < len(s):
        m = TOK.match(s, i)
        if not m: raise SyntaxError('tok: ' + s[i:i+40])
        i = m.end()
        k = m.lastgroup
        if k == 'ws': continue
        out.append((k, m.group()))
    return out

# ------------------------------------------------------------------ types
class T:
    pass
class IntT(T):
    def __init__(s, n): s.n = n
    def __repr__(s): return 'i%d' % s.n
class FloatT(T):
    def __init__(s, k): s.k = k
    def __repr__(s): return s.k
class PtrT(T):
    def __init__(s, to): s.to = to
    def __repr__(s): return '%r*' % (s.to,)
class ArrT(T):
    def __init__(s, n, el): s.n = n; s.el = el
    def __repr__(s): return '[%d x %r]' % (s.n, s.el)
class VecT(T):
    def __init__(s, n, el): s.n = n; s.el = el
    def __repr__(s): return '<%d x %r>' % (s.n, s.el)
class StructT(T):
    def __init__(s, els, packed=False): s.els = els; s.packed = packed
    def __repr__(s): return '{%s}' % ','.join(map(repr, s.els))
class NamedT(T):
    def __init__(s, name): s.name = name
    def __repr__(s): return s.name
class VoidT(T):
    def __repr__(s): return 'void'
class FnT(T):
    def __init__(s, ret, args): s.ret = ret; s.args = args
    def __repr__(s): return 'fn'
class OpaqueT(T):
    pass

class Module:
    def __init__(s):
        s.named = {}; s.globals = {}; s.funcs = {}; s.decls = {}

M = Module()

def resolve(t):
    while isinstance(t, NamedT):
        t = M.named[t.name]
    return t

def sizeof(t):
    t = resolve(t)
    if isinstance(t, IntT): return max(1, (t.n + 7) // 8) if t.n <= 64 else 16
    if isinstance(t, FloatT): return {'float': 4, 'double': 8, 'x86_fp80': 16}[t.k]
    if isinstance(t, PtrT): return 8
    if isinstance(t, ArrT): return t.n * sizeof(t.el)
    if isinstance(t, VecT):
        el = resolve(t.el)
        if isinstance(el, IntT) and el.n == 1: return max(1, t.n // 8)
        return t.n * sizeof(t.el)
    if isinstance(t, StructT):
        off = 0; al = 1
        for e in t.els:
            a = 1 if t.packed else alignof(e)
            al = max(al, a)
            off = (off + a - 1) // a * a + sizeof(e)
        return (off + al - 1) // al * al
    if isinstance(t, OpaqueT): return 0
    raise ValueError('sizeof %r' % (t,))

def alignof(t):
    t = resolve(t)
    if isinstance(t, IntT): return min(sizeof(t), 16)
    if isinstance(t, FloatT): return sizeof(t)
    if isinstance(t, PtrT): return 8
    if isinstance(t, ArrT): return alignof(t.el)
    if isinstance(t, VecT): return min(sizeof(t), 32)
    if isinstance(t, StructT):
        if t.packed: return 1
        return max([alignof(e) for e in t.els] + [1])
    return 1

def field_off(t, idx):
    t = resolve(t); off = 0
    for i, e in enumerate(t.els):
        a = 1 if t.packed else alignof(e)
        off = (off + a - 1) // a * a
        if i == idx: return off
        off += sizeof(e)
    raise IndexError

# ------------------------------------------------------------------ parser
class P:
    def __init__(s, toks): s.t = toks; s.i = 0
    def peek(s, k=0):
        return s.t[s.i + k] if s.i + k < len(s.t) else ('eof', '')
    def next(s):
        x = s.t[s.i]; s.i += 1; return x
    def accept(s, v):
        if s.peek()[1] == v: s.i += 1; return True
        return False
    def expect(s, v):
        x = s.next()
        if x[1] != v: raise SyntaxError('expected %s got %s at %s' % (v, x, s.t[max(0,s.i-8):s.i+5]))
    def at_type(s):
        k, v = s.peek()
        if k == 'word': return bool(re.match(r'^(i\d+|void|float|double|half|x86_fp80|ptr|opaque|label|metadata)$', v))
        if k in ('id', 'qid') and v[0] == '%':
            return v in M.named or True
        return v in ('[', '{', '<')
    def type(s):
        k, v = s.next()
        if k == 'word':
            if v[0] == 'i' and v[1:].isdigit(): t = IntT(int(v[1:]))
            elif v == 'void': t = VoidT()
            elif v in ('float', 'double', 'x86_fp80'): t = FloatT(v)
            elif v == 'opaque': t = OpaqueT()
            elif v in ('label', 'metadata'): t = VoidT()
            else: raise SyntaxError('type ' + v)
        elif k in ('id', 'qid'): t = NamedT(v)
        elif v == '[':
            n = int(s.next()[1]); s.expect('x'); el = s.type(); s.expect(']'); t = ArrT(n, el)
        elif v == '<':
            if s.peek()[1] == '{':
                s.next(); els = s.typelist('}'); s.expect('>'); t = StructT(els, True)
            else:
                n = int(s.next()[1]); s.expect('x'); el = s.type(); s.expect('>'); t = VecT(n, el)
        elif v == '{':
            els = s.typelist('}'); t = StructT(els)
        else: raise SyntaxError('type? %s %s' % (k, v))
        while True:
            if s.accept('*'): t = PtrT(t)
            elif s.peek()[1] == '(':
                s.next(); args = []
                while not s.accept(')'):
                    if s.accept('...'): continue
                    args.append(s.type()); s.accept(',')
                t = FnT(t, args)
            else: break
        return t
    def typelist(s, end):
        els = []
        while not s.accept(end):
            els.append(s.type()); s.accept(',')
        return els
    def skip_attrs(s):
        while True:
            k, v = s.peek()
            if k == 'word' and v in ('noundef', 'nonnull', 'zeroext', 'signext', 'inreg', 'nocapture', 'readonly', 'writeonly', 'noalias', 'returned', 'immarg', 'readnone', 'nofree', 'nest', 'swiftself', 'inbounds', 'nuw', 'nsw', 'exact', 'volatile', 'dso_local', 'local_unnamed_addr', 'unnamed_addr', 'internal', 'private', 'external', 'hidden', 'linkonce_odr', 'weak_odr', 'weak', 'available_externally', 'constant', 'global', 'tail', 'musttail', 'notail', 'fastcc', 'noinline', 'comdat', 'nnan', 'ninf', 'nsz', 'arcp', 'contract', 'afn', 'reassoc', 'fast', 'thread_local', 'common', 'appending', 'dllimport', 'atomic', 'unordered', 'monotonic', 'acquire', 'release', 'acq_rel', 'seq_cst', 'weak', 'mustprogress', 'initialexec', 'localdynamic', 'localexec'):
                s.next()
            elif k == 'word' and v in ('align', 'dereferenceable', 'dereferenceable_or_null', 'byval', 'sret', 'syncscope', 'elementtype', 'addrspace', 'preallocated', 'inalloca', 'byref'):
                s.next()
                if s.accept('('):
                    d = 1
                    while d:
                        x = s.next()[1]
                        if x == '(': d += 1
                        elif x == ')': d -= 1
                else: s.next()
            elif k == 'attr': s.next()
            else: break

    # ---- values: returns ('kind', ...)
    def value(s, ty):
        k, v = s.peek()
        rty = resolve(ty)
        if k in ('id', 'qid'):
            s.next(); return ('ref', v)
        if k == 'num':
            s.next()
            if isinstance(rty, FloatT): return ('fp', float(v))
            return ('int', int(v))
        if k == 'hex':
            s.next()
            import struct
            if isinstance(rty, FloatT):
                return ('fp', struct.unpack('<d', struct.pack('<Q', int(v, 16)))[0])
            return ('int', int(v, 16))
        if k == 'word':
            if v in ('true', 'false'): s.next(); return ('int', 1 if v == 'true' else 0)
            if v == 'null': s.next(); return ('null',)
            if v in ('undef', 'poison'): s.next(); return ('undef',)
            if v == 'zeroinitializer': s.next(); return ('zero',)
            if v in ('getelementptr', 'bitcast', 'ptrtoint', 'inttoptr', 'trunc', 'zext', 'sext', 'add', 'sub', 'mul', 'and', 'or', 'xor', 'shl', 'lshr', 'icmp', 'select', 'addrspacecast'):
                return s.constexpr()
        if k == 'str':
            s.next(); return ('bytes', cstr(v))
        if v == '[':
            s.next(); els = []
            while not s.accept(']'):
                t = s.type(); els.append((t, s.value(t))); s.accept(',')
            return ('agg', els)
        if v == '{':
            s.next(); els = []
            while not s.accept('}'):
                t = s.type(); els.append((t, s.value(t))); s.accept(',')
            return ('agg', els)
        if v == '<':
            s.next()
            if s.accept('{'):
                els = []
                while not s.accept('}'):
                    t = s.type(); els.append((t, s.value(t))); s.accept(',')
                s.expect('>')
                return ('agg', els)
            els = []
            while not s.accept('>'):
                t = s.type(); els.append((t, s.value(t))); s.accept(',')
            return ('agg', els)
        raise SyntaxError('value? %s %s near %s' % (k, v, s.t[s.i-5:s.i+5]))

    def constexpr(s):
        op = s.next()[1]
        s.skip_attrs()
        s.expect('(')
        if op == 'getelementptr':
            s.skip_attrs()
            bt = s.type(); s.expect(',')
            pt = s.type(); base = s.value(pt)
            idx = []
            while s.accept(','):
                s.skip_attrs()
                it = s.type(); idx.append((it, s.value(it)))
            s.expect(')')
            return ('cgep', bt, base, idx)
        if op in ('bitcast', 'ptrtoint', 'inttoptr', 'trunc', 'zext', 'sext', 'addrspacecast'):
            ft = s.type(); v = s.value(ft); s.expect('to'); tt = s.type(); s.expect(')')
            return ('ccast', op, ft, v, tt)
        if op in ('add', 'sub', 'mul', 'and', 'or', 'xor', 'shl', 'lshr'):
            t1 = s.type(); a = s.value(t1); s.expect(','); t2 = s.type(); b = s.value(t2); s.expect(')')
            return ('cbin', op, t1, a, b)
        raise SyntaxError('constexpr ' + op)

def cstr(v):
    body = v[2:-1]; out = bytearray(); i = 0
    while i < len(body):
        if body[i] == '\\':
            if body[i+1] == '\\': out.append(92); i += 2; continue
            out.append(int(body[i+1:i+3], 16)); i += 3
        else:
            out.append(ord(body[i])); i += 1
    return bytes(out)

# ------------------------------------------------------------------ module parse
class Func:
    def __init__(s): s.name = ''; s.ret = None; s.params = []; s.blocks = []; s.vararg = False

def parse_module(text):
    lines = text.split('\n')
    i = 0
    while i < len(lines):
        ln = lines[i]
        if ln.startswith('%') and ' = type ' in ln:
            p = P(tokenize(ln)); name = p.next()[1]; p.expect('='); p.expect('type')
            M.named[name] = p.type()
        i += 1
    i = 0
    while i < len(lines):
        ln = lines[i]
        if ln.startswith('@'):
            parse_global(ln)
        elif ln.startswith('declare'):
            parse_decl(ln)
        elif ln.startswith('define'):
            j = i
            while lines[j] != '}': j += 1
            parse_func(lines[i:j])
            i = j
        i += 1

def parse_global(ln):
    ln = re.sub(r', (align \d+|comdat.*|section "[^"]*"|!dbg.*)$', '', ln)
    ln = re.sub(r', align \d+$', '', ln)
    p = P(tokenize(ln))
    name = p.next()[1]; p.expect('=')
    p.skip_attrs()
    if p.peek()[1] in ('ifunc', 'alias'):
        kind = p.next()[1]
        p.skip_attrs()
        ty = p.type(); p.expect(',')
        t2 = p.type(); tgt = p.value(t2)
        M.globals[name] = dict(name=name, kind=kind, ty=ty, target=tgt)
        return
    ty = p.type()
    init = None
    if p.peek()[0] != 'eof' and p.peek()[1] != ',':
        init = p.value(ty)
    M.globals[name] = dict(name=name, kind='var', ty=ty, init=init, const=' constant ' in ln, tls=' thread_local' in ln)

def parse_sig(p):
    p.skip_attrs()
    ret = p.type()
    p.skip_attrs()
    name = p.next()[1]
    p.expect('(')
    params = []; vararg = False
    while not p.accept(')'):
        if p.accept('...'): vararg = True; continue
        t = p.type(); p.skip_attrs()
        nm = None
        if p.peek()[0] in ('id', 'qid'): nm = p.next()[1]
        params.append((t, nm)); p.accept(',')
    return ret, name, params, vararg

def parse_decl(ln):
    p = P(tokenize(ln)); p.expect('declare')
    ret, name, params, va = parse_sig(p)
    M.decls[name] = (ret, [t for t, _ in params], va)

def parse_func(lines):
    hdr = lines[0]
    hdr = re.sub(r'\s(section|comdat|gc|prefix|prologue|personality)\b.*$', '', hdr.rstrip(' {'))
    p = P(tokenize(hdr)); p.expect('define')
    f = Func()
    f.ret, f.name, f.params, f.vararg = parse_sig(p)
    cur = None
    nparams = len(f.params)
    # implicit names
    cnt = 0
    for k, (t, nm) in enumerate(f.params):
        if nm is None: f.params[k] = (t, '%%%d' % cnt)
        if f.params[k][1][1:].isdigit(): cnt = int(f.params[k][1][1:]) + 1
    entry = '%%%d' % cnt
    cur = [entry, []]; f.blocks.append(cur)
    k = 1
    while k < len(lines):
        ln = lines[k]
        k += 1
        s = ln.strip()
        if not s or s.startswith(';'): continue
        m = re.match(r'^([-a-zA-Z$._0-9]+|"[^"]*"):', ln)
        if m:
            if len(f.blocks) == 1 and not cur[1]:
                cur[0] = '%' + m.group(1); continue
            cur = ['%' + m.group(1), []]; f.blocks.append(cur); continue
        if s.startswith('switch'):
            while not re.search(r'\](, ![a-zA-Z_.0-9]+ ![0-9]+)*$', s):
                s += ' ' + lines[k].strip(); k += 1
            s = re.sub(r'(, ![a-zA-Z_.0-9]+ ![0-9]+)+$', '', s)
        cur[1].append(s)
    M.funcs[f.name] = f

# ------------------------------------------------------------------ C emission
def cname(n):
    n = n[1:]
    if n.startswith('"'): n = n[1:-1]
    return re.sub(r'[^A-Za-z0-9_]', lambda m: '_%02x' % ord(m.group()), n)

vec_types = {}
struct_types = {}

def ctype(t):
    t = resolve(t)
    if isinstance(t, IntT):
        if t.n == 1: return 'uint8_t'
        if t.n <= 8: return 'uint8_t'
        if t.n <= 16: return 'uint16_t'
        if t.n <= 32: return 'uint32_t'
        if t.n <= 64: return 'uint64_t'
        return 'unsigned __int128'
    if isinstance(t, FloatT): return t.k if t.k != 'x86_fp80' else 'long double'
    if isinstance(t, PtrT): return 'uint8_t*'
    if isinstance(t, VecT):
        el = resolve(t.el)
        nm = 'v%d%s' % (t.n, 'p' if isinstance(el, PtrT) else ('i%d' % el.n if isinstance(el, IntT) else el.k))
        vec_types[nm] = (t.n, ctype(el))
        return nm
    if isinstance(t, (StructT, ArrT)):
        nm = 'agg%d' % sizeof(t)
        struct_types[nm] = sizeof(t)
        return nm
    if isinstance(t, VoidT): return 'void'
    raise ValueError('ctype %r' % (t,))

def sctype(t):
    t = resolve(t)
    return {'uint8_t': 'int8_t', 'uint16_t': 'int16_t', 'uint32_t': 'int32_t', 'uint64_t': 'int64_t', 'unsigned __int128': '__int128'}[ctype(t)]

def mask(t, e):
    t = resolve(t)
    if isinstance(t, IntT) and t.n not in (8, 16, 32, 64, 128):
        return '((%s)&%s)' % (e, hex((1 << t.n) - 1) + ('ULL' if t.n > 31 else 'U'))
    return e

class FnEmitter:
    def __init__(s, f):
        s.f = f; s.types = {}; s.out = []; s.decl = {}
        for t, n in f.params: s.types[n] = t

    def val(s, ty, v):
        """C expression for operand v of type ty"""
        k = v[0]; rty = resolve(ty)
        if k == 'ref':
            n = v[1]
            if n[0] == '@':
                if n in M.funcs or n in M.decls: return '((uint8_t*)&%s)' % fname(n)
                return '((uint8_t*)%s)' % ('g_' + cname(n))
            return 'r_' + cname(n)
        if k == 'int':
            if isinstance(rty, IntT):
                x = v[1] & ((1 << rty.n) - 1)
                if rty.n > 64:
                    return '((((unsigned __int128)%dULL)<<64)|%dULL)' % (x >> 64, x & (2**64 - 1))
                return '((%s)%dULL)' % (ctype(rty), x)
            if isinstance(rty, PtrT): return '((uint8_t*)%dULL)' % v[1]
            raise ValueError('int for %r' % (rty,))
        if k == 'fp':
            return repr(v[1]) if v[1] == v[1] and abs(v[1]) != float('inf') else ('(0.0/0.0)' if v[1] != v[1] else ('(1.0/0.0)' if v[1] > 0 else '(-1.0/0.0)'))
        if k == 'null': return '((uint8_t*)0)'
        if k in ('undef', 'zero'):
            if isinstance(rty, (VecT, StructT, ArrT)): return '(%s){0}' % ctype(rty)
            if isinstance(rty, PtrT): return '((uint8_t*)0)'
            return '((%s)0)' % ctype(rty)
        if k == 'agg':
            if isinstance(rty, VecT):
                return '(%s){{%s}}' % (ctype(rty), ','.join(s.val(t, x) for t, x in v[1]))
            raise ValueError('agg operand')
        if k == 'cgep':
            _, bt, base, idx = v
            return s.gep(bt, s.val(PtrT(bt), base), idx)
        if k == 'ccast':
            _, op, ft, x, tt = v
            return s.cast(op, ft, s.val(ft, x), tt)
        if k == 'cbin':
            _, op, t1, a, b = v
            return s.binop(op, t1, s.val(t1, a), s.val(t1, b))
        raise ValueError('val %r' % (v,))

    def gep(s, bt, base, idx):
        off = []
        cur = bt
        for n, (it, iv) in enumerate(idx):
            if n == 0:
                sz = sizeof(cur)
            else:
                r = resolve(cur)
                if isinstance(r, StructT):
                    assert iv[0] == 'int'
                    off.append('%d' % field_off(r, iv[1])); cur = r.els[iv[1]]; continue
                elif isinstance(r, (ArrT, VecT)):
                    cur = r.el; sz = sizeof(cur)
                else: raise ValueError('gep into %r' % (r,))
            if iv[0] == 'int':
                off.append('%d' % (sext_const(iv[1], resolve(it).n) * sz))
            else:
                off.append('((int64_t)(%s)%s)*%d' % (sctype(it), s.val(it, iv), sz))
        return '(%s + (%s))' % (base, ' + '.join(off) if off else '0')

    def cast(s, op, ft, e, tt):
        rf = resolve(ft); rt = resolve(tt)
        if isinstance(rf, VecT) and op in ('zext', 'sext', 'trunc'):
            return '%s_%s_%s(%s)' % (op, ctype(rf), ctype(rt), e), ('veccast', op, rf, rt)
        if op == 'bitcast':
            if isinstance(rf, PtrT) and isinstance(rt, PtrT): return e
            if ctype(rf) == ctype(rt): return e
            return 'BITCAST(%s,%s,%s)' % (ctype(rf), ctype(rt), e) if not (isinstance(rf, VecT) and isinstance(resolve(rf.el), IntT) and resolve(rf.el).n == 1) else 'movemask_%s_%s(%s)' % (ctype(rf), ctype(rt), e)
        if op == 'ptrtoint': return mask(rt, '((%s)LL_PTRTOINT(%s))' % (ctype(rt), e))
        if op == 'inttoptr': return '((uint8_t*)(uint64_t)(%s))' % e
        if op == 'trunc': return mask(rt, '((%s)(%s))' % (ctype(rt), e))
        if op == 'zext': return '((%s)(%s))' % (ctype(rt), e)
        if op == 'sext':
            if rf.n == 1: return '((%s)(-(%s)(%s)))' % (ctype(rt), sctype(rt), e)
            return '((%s)(%s)(%s)(%s))' % (ctype(rt), sctype(rt), sctype(rf), e)
        if op == 'addrspacecast': return e
        raise ValueError(op)

    def binop(s, op, ty, a, b):
        rt = resolve(ty)
        if isinstance(rt, VecT):
            return 'VBIN_%s_%s(%s,%s)' % (op, ctype(rt), a, b)
        ct = ctype(rt)
        if isinstance(rt, FloatT):
            return '(%s %s %s)' % (a, {'fadd': '+', 'fsub': '-', 'fmul': '*', 'fdiv': '/'}[op], b)
        sc = sctype(rt)
        ops = {'add': '+', 'sub': '-', 'mul': '*', 'and': '&', 'or': '|', 'xor': '^', 'udiv': '/', 'urem': '%'}
        if op in ops: return mask(rt, '((%s)(%s %s %s))' % (ct, a, ops[op], b))
        if op == 'shl': return mask(rt, '((%s)(%s << %s))' % (ct, a, b))
        if op == 'lshr': return '((%s)(%s >> %s))' % (ct, a, b)
        if op == 'ashr': return '((%s)((%s)%s >> %s))' % (ct, sc, a, b)
        if op == 'sdiv': return '((%s)((%s)%s / (%s)%s))' % (ct, sc, a, sc, b)
        if op == 'srem': return '((%s)((%s)%s %% (%s)%s))' % (ct, sc, a, sc, b)
        raise ValueError(op)

def sext_const(v, n):
    v &= (1 << n) - 1
    return v - (1 << n) if v >> (n - 1) else v

def fname(n):
    n2 = cname(n)
    return {'malloc': 'malloc', 'free': 'free', 'realloc': 'realloc', 'memcmp': 'll_memcmp', 'bcmp': 'll_memcmp', '_Znwm': 'll_new', '_Znam': 'll_new', '_ZdlPv': 'free', '_ZdaPv': 'free', 'strlen': 'll_strlen', 'memchr': 'll_memchr', 'abort': 'll_abort'}.get(n2, 'f_' + n2 if (n in M.funcs) else 'x_' + n2)

helpers_needed = set()

def emit_func(f):
    E = FnEmitter(f)
    body = []
    decls = {}
    labels = {b[0]: 'L_' + cname(b[0]) for b in f.blocks}
    # first pass: find result types
    insts = {}
    parsed = []
    for bl, lines in f.blocks:
        pl = []
        for ln in lines:
            ln = re.sub(r'(, ![a-zA-Z_.0-9]+ ![0-9]+)+$', '', ln)
            ln = re.sub(r', !srcloc ![0-9]+$', '', ln)
            pl.append(ln)
        parsed.append((bl, pl))
    # phi handling: collect phis per block
    phis = {}  # block -> list of (dest, type, [(val, pred)])
    code = {}  # block -> list of C stmts
    term = {}
    for bl, lines in parsed:
        code[bl] = []; phis[bl] = []
        for ln in lines:
            p = P(tokenize(ln))
            dest = None
            if p.peek()[0] in ('id', 'qid') and p.peek(1)[1] == '=':
                dest = p.next()[1]; p.next()
            p.skip_attrs()
            op = p.next()[1]
            stmt = E_inst(E, p, op, dest, decls, phis[bl], labels, bl)
            if stmt: code[bl].extend(stmt if isinstance(stmt, list) else [stmt])
    # emit
    out = []
    rett = ctype(f.ret)
    out.append('%s %s(%s)' % (rett, fname(f.name), ', '.join('%s r_%s' % (ctype(t), cname(n)) for t, n in f.params) or 'void'))
    out.append('{')
    for n, t in decls.items():
        out.append('  %s r_%s;' % (t, cname(n)))
    for bl in phis:
        for d, t, inc in phis[bl]:
            out.append('  %s phi_%s;' % (ctype(t), cname(d)))
    for bl, _ in parsed:
        out.append('%s: ;' % labels[bl])
        for d, t, inc in phis[bl]:
            out.append('  r_%s = phi_%s;' % (cname(d), cname(d)))
        for st in code[bl]:
            if isinstance(st, tuple) and st[0] == 'term':
                # st = ('term', [(cond, target)], )
                for cond, tgt in st[1]:
                    assigns = []
                    for d, t, inc in phis.get(tgt, []):
                        for v, pred in inc:
                            if pred == bl:
                                assigns.append('phi_%s = %s;' % (cname(d), E.val(t, v)))
                    jump = '{ %s goto %s; }' % (' '.join(assigns), labels[tgt])
                    out.append('  %s%s' % ('if (%s) ' % cond if cond else '', jump))
            else:
                out.append('  ' + st)
    out.append('}')
    return '\n'.join(out)

def settype(E, decls, dest, t):
    E.types[dest] = t
    decls[dest] = ctype(t)

def E_inst(E, p, op, dest, decls, phil, labels, bl):
    s = E
    if op == 'phi':
        t = p.type(); inc = []
        while p.accept('['):
            v = p.value(t); p.expect(','); pred = p.next()[1]; p.expect(']'); p.accept(',')
            inc.append((v, pred))
        settype(E, decls, dest, t)
        phil.append((dest, t, inc))
        return None
    if op in ('add', 'sub', 'mul', 'and', 'or', 'xor', 'shl', 'lshr', 'ashr', 'udiv', 'urem', 'sdiv', 'srem', 'fadd', 'fsub', 'fmul', 'fdiv'):
        p.skip_attrs(); t = p.type(); a = p.value(t); p.expect(','); b = p.value(t)
        settype(E, decls, dest, t)
        e = s.binop(op, t, s.val(t, a), s.val(t, b))
        if isinstance(resolve(t), VecT): helpers_needed.add(('vbin', op, ctype(t)))
        return 'r_%s = %s;' % (cname(dest), e)
    if op == 'fneg':
        p.skip_attrs(); t = p.type(); a = p.value(t); settype(E, decls, dest, t)
        return 'r_%s = -(%s);' % (cname(dest), s.val(t, a))
    if op == 'icmp' or op == 'fcmp':
        p.skip_attrs()
        pred = p.next()[1]; t = p.type(); a = p.value(t); p.expect(','); b = p.value(t)
        rt = resolve(t)
        if isinstance(rt, VecT):
            settype(E, decls, dest, VecT(rt.n, IntT(1))); ctype(VecT(rt.n, IntT(1)))
            helpers_needed.add(('vcmp', pred, ctype(rt), sctype(rt.el) if isinstance(resolve(rt.el), IntT) else None))
            return 'r_%s = VCMP_%s_%s(%s,%s);' % (cname(dest), pred, ctype(rt), s.val(t, a), s.val(t, b))
        settype(E, decls, dest, IntT(1))
        A = s.val(t, a); B = s.val(t, b)
        if op == 'fcmp':
            o = {'oeq': '==', 'ogt': '>', 'oge': '>=', 'olt': '<', 'ole': '<=', 'one': '!=', 'une': '!=', 'ueq': '==', 'ugt': '>', 'uge': '>=', 'ult': '<', 'ule': '<='}[pred]
            if pred[0] == 'u' and pred != 'une':
                return 'r_%s = !(%s == %s && %s == %s) || (%s %s %s);' % (cname(dest), A, A, B, B, A, o, B)
            return 'r_%s = (%s %s %s);' % (cname(dest), A, o, B)
        if isinstance(rt, PtrT):
            A = '(uint64_t)' + A; B = '(uint64_t)' + B; sc = 'int64_t'
        else: sc = sctype(rt)
        o = {'eq': '==', 'ne': '!=', 'ugt': '>', 'uge': '>=', 'ult': '<', 'ule': '<=', 'sgt': '>', 'sge': '>=', 'slt': '<', 'sle': '<='}[pred]
        if pred[0] == 's':
            if isinstance(rt, IntT) and rt.n not in (8, 16, 32, 64, 128): raise ValueError('odd signed cmp')
            return 'r_%s = ((%s)%s %s (%s)%s);' % (cname(dest), sc, A, o, sc, B)
        return 'r_%s = (%s %s %s);' % (cname(dest), A, o, B)
    if op in ('zext', 'sext', 'trunc', 'bitcast', 'ptrtoint', 'inttoptr', 'sitofp', 'uitofp', 'fptosi', 'fptoui', 'fpext', 'fptrunc', 'addrspacecast'):
        ft = p.type(); v = p.value(ft); p.expect('to'); tt = p.type()
        settype(E, decls, dest, tt)
        rf = resolve(ft); rt = resolve(tt)
        if op in ('sitofp',): return 'r_%s = (%s)(%s)%s;' % (cname(dest), ctype(rt), sctype(rf), s.val(ft, v))
        if op in ('uitofp', 'fpext', 'fptrunc'): return 'r_%s = (%s)%s;' % (cname(dest), ctype(rt), s.val(ft, v))
        if op == 'fptosi': return 'r_%s = (%s)(%s)%s;' % (cname(dest), ctype(rt), sctype(rt), s.val(ft, v))
        if op == 'fptoui': return 'r_%s = (%s)%s;' % (cname(dest), ctype(rt), s.val(ft, v))
        e = s.cast(op, ft, s.val(ft, v), tt)
        if isinstance(e, tuple):
            helpers_needed.add(e[1]); e = e[0]
        elif e.startswith('movemask_'):
            helpers_needed.add(('movemask', ctype(rf), ctype(rt), rf.n))
        elif e.startswith('BITCAST'):
            pass
        return 'r_%s = %s;' % (cname(dest), e)
    if op == 'getelementptr':
        p.skip_attrs(); bt = p.type(); p.expect(','); pt = p.type(); base = p.value(pt); idx = []
        while p.accept(','):
            p.skip_attrs(); it = p.type(); idx.append((it, p.value(it)))
        settype(E, decls, dest, PtrT(IntT(8)))
        return 'r_%s = %s;' % (cname(dest), s.gep(bt, s.val(pt, base), idx))
    if op == 'load':
        p.skip_attrs(); t = p.type(); p.expect(','); pt = p.type(); a = p.value(pt)
        settype(E, decls, dest, t)
        return 'r_%s = LOAD(%s, %s);' % (cname(dest), ctype(t), s.val(pt, a))
    if op == 'store':
        p.skip_attrs(); t = p.type(); v = p.value(t); p.expect(','); pt = p.type(); a = p.value(pt)
        return 'STORE(%s, %s, %s);' % (ctype(t), s.val(pt, a), s.val(t, v))
    if op == 'alloca':
        p.skip_attrs(); t = p.type(); n = '1'
        if p.accept(','):
            if p.peek()[1] != 'align':
                it = p.type(); n = s.val(it, p.value(it))
        settype(E, decls, dest, PtrT(IntT(8)))
        return ['static_alloca(%s, %d * (%s), %d);' % (cname(dest), sizeof(t), n, alignof(t))]
    if op == 'select':
        p.skip_attrs(); ct_ = p.type(); c = p.value(ct_); p.expect(','); t = p.type(); a = p.value(t); p.expect(','); t2 = p.type(); b = p.value(t2)
        settype(E, decls, dest, t)
        if isinstance(resolve(ct_), VecT):
            helpers_needed.add(('vselect', ctype(ct_), ctype(t)))
            return 'r_%s = VSELECT_%s(%s,%s,%s);' % (cname(dest), ctype(t), s.val(ct_, c), s.val(t, a), s.val(t, b))
        return 'r_%s = (%s) ? (%s) : (%s);' % (cname(dest), s.val(ct_, c), s.val(t, a), s.val(t, b))
    if op == 'freeze':
        t = p.type(); a = p.value(t); settype(E, decls, dest, t)
        return 'r_%s = %s;' % (cname(dest), s.val(t, a))
    if op == 'extractelement':
        t = p.type(); v = p.value(t); p.expect(','); it = p.type(); i = p.value(it)
        settype(E, decls, dest, resolve(t).el)
        return 'r_%s = (%s).e[%s];' % (cname(dest), s.val(t, v), s.val(it, i))
    if op == 'insertelement':
        t = p.type(); v = p.value(t); p.expect(','); et = p.type(); e = p.value(et); p.expect(','); it = p.type(); i = p.value(it)
        settype(E, decls, dest, t)
        return ['r_%s = %s;' % (cname(dest), s.val(t, v)), 'r_%s.e[%s] = %s;' % (cname(dest), s.val(it, i), s.val(et, e))]
    if op == 'shufflevector':
        t = p.type(); a = p.value(t); p.expect(','); t2 = p.type(); b = p.value(t2); p.expect(','); mt = p.type(); m = p.value(mt)
        rt = resolve(t); n = resolve(mt).n
        dt = VecT(n, rt.el); settype(E, decls, dest, dt)
        if m[0] == 'zero': idxs = [0] * n
        else: idxs = [(x[1] if x[0] == 'int' else -1) for _, x in m[1]]
        A = s.val(t, a); B = s.val(t2, b)
        st = ['{ %s sa_ = %s; %s sb_ = %s;' % (ctype(t), A, ctype(t), B)]
        for k, ix in enumerate(idxs):
            if ix < 0: st.append(' r_%s.e[%d] = 0;' % (cname(dest), k))
            elif ix < rt.n: st.append(' r_%s.e[%d] = sa_.e[%d];' % (cname(dest), k, ix))
            else: st.append(' r_%s.e[%d] = sb_.e[%d];' % (cname(dest), k, ix - rt.n))
        st.append('}')
        return [''.join(st)]
    if op == 'extractvalue':
        t = p.type(); v = p.value(t); idx = []
        while p.accept(','): idx.append(int(p.next()[1]))
        cur = t; off = 0
        for i in idx:
            r = resolve(cur)
            if isinstance(r, StructT): off += field_off(r, i); cur = r.els[i]
            else: off += i * sizeof(r.el); cur = r.el
        settype(E, decls, dest, cur)
        return 'r_%s = LOAD(%s, ((uint8_t*)&%s) + %d);' % (cname(dest), ctype(cur), s.val(t, v), off)
    if op == 'insertvalue':
        t = p.type(); v = p.value(t); p.expect(','); et = p.type(); e = p.value(et); idx = []
        while p.accept(','): idx.append(int(p.next()[1]))
        cur = t; off = 0
        for i in idx:
            r = resolve(cur)
            if isinstance(r, StructT): off += field_off(r, i); cur = r.els[i]
            else: off += i * sizeof(r.el); cur = r.el
        settype(E, decls, dest, t)
        return ['r_%s = %s;' % (cname(dest), s.val(t, v)), 'STORE(%s, ((uint8_t*)&r_%s) + %d, %s);' % (ctype(et), cname(dest), off, s.val(et, e))]
    if op == 'br':
        if p.accept('label'):
            return ('term', [(None, p.next()[1])])
        t = p.type(); c = p.value(t); p.expect(','); p.expect('label'); a = p.next()[1]; p.expect(','); p.expect('label'); b = p.next()[1]
        return ('term', [(s.val(t, c), a), (None, b)])
    if op == 'switch':
        t = p.type(); v = p.value(t); p.expect(','); p.expect('label'); dflt = p.next()[1]; p.expect('[')
        arms = []
        while not p.accept(']'):
            ct_ = p.type(); cv = p.value(ct_); p.expect(','); p.expect('label'); arms.append((cv, p.next()[1]))
        V = s.val(t, v)
        return ('term', [('%s == %s' % (V, s.val(t, cv)), tg) for cv, tg in arms] + [(None, dflt)])
    if op == 'ret':
        t = p.type()
        if isinstance(resolve(t), VoidT): return 'return;'
        return 'return %s;' % s.val(t, p.value(t))
    if op == 'unreachable':
        return 'LL_UNREACHABLE();'
    if op in ('call', 'invoke', 'tail', 'musttail', 'notail'):
        if op in ('tail', 'musttail', 'notail'): p.expect('call')
        p.skip_attrs()
        rt = p.type()
        if isinstance(rt, FnT): rt = rt.ret
        if p.peek()[1] == 'asm':
            p.next(); p.skip_attrs()
            while p.peek()[1] in ('sideeffect', 'alignstack', 'inteldialect'): p.next()
            asm = p.next()[1]; p.expect(','); cons = p.next()[1]
            args = call_args(p, s)
            key = asm
            if dest: settype(E, decls, dest, rt)
            if 'bzhil' in asm:
                return 'r_%s = ll_bzhi32(%s, %s);' % (cname(dest), args[1][1], args[0][1])
            if asm.strip('c"') == '' or 'pause' in asm: return None
            raise ValueError('asm ' + asm)
        callee = p.value(PtrT(IntT(8)))
        args = call_args(p, s)
        if callee[0] != 'ref' or callee[1][0] != '@':
            # indirect
            ce = s.val(PtrT(IntT(8)), callee)
            fn = '((%s(*)(%s))%s)' % (ctype(rt), ','.join(ctype(t) for t, _ in args), ce)
        else:
            nm = callee[1]
            fn = intrinsic(nm, rt, args)
            if fn is None: return None
            if isinstance(fn, tuple):
                # inline expression
                if dest: settype(E, decls, dest, rt); return 'r_%s = %s;' % (cname(dest), fn[0])
                return fn[0] + ';'
        call = '%s(%s)' % (fn, ', '.join(a for _, a in args))
        if dest:
            settype(E, decls, dest, rt)
            return 'r_%s = %s;' % (cname(dest), call)
        return call + ';'
    if op == 'fence': return '__CPROVER_fence("WWfence","RRfence","RWfence","WRfence");'
    if op == 'atomicrmw':
        p.skip_attrs(); aop = p.next()[1]; pt = p.type(); a = p.value(pt); p.expect(','); t = p.type(); v = p.value(t)
        settype(E, decls, dest, t)
        o = {'xchg': 'v_', 'add': 'o_ + v_', 'sub': 'o_ - v_', 'or': 'o_ | v_', 'and': 'o_ & v_'}[aop]
        return '{ %s v_ = %s; __CPROVER_atomic_begin(); %s o_ = LOAD(%s,%s); STORE(%s,%s,(%s)(%s)); __CPROVER_atomic_end(); r_%s = o_; }' % (ctype(t), s.val(t, v), ctype(t), ctype(t), s.val(pt, a), ctype(t), s.val(pt, a), ctype(t), o, cname(dest))
    raise ValueError('unhandled op %s' % op)

def call_args(p, s):
    p.expect('(')
    args = []
    while not p.accept(')'):
        t = p.type(); p.skip_attrs(); v = p.value(t); args.append((t, s.val(t, v))); p.accept(',')
    return args

def intrinsic(nm, rt, args):
    n = nm[1:]
    if n.startswith('llvm.lifetime') or n.startswith('llvm.dbg') or n.startswith('llvm.assume') or n.startswith('llvm.experimental.noalias') or n == '__cxa_atexit':
        return None
    a = [x for _, x in args]
    if n.startswith('llvm.memcpy') or n.startswith('llvm.memmove'):
        return ('ll_memmove(%s,%s,%s)' % (a[0], a[1], a[2]),)
    if n.startswith('llvm.memset'):
        return ('ll_memset(%s,%s,%s)' % (a[0], a[1], a[2]),)
    m = re.match(r'llvm\.(cttz|ctlz|ctpop|bswap|umin|umax|smin|smax|abs|fshl|fshr|uadd\.sat|usub\.sat)\.(i\d+|v\d+i\d+)$', n)
    if m:
        helpers_needed.add(('int', m.group(1), m.group(2)))
        return ('ll_%s_%s(%s)' % (m.group(1).replace('.', '_'), m.group(2), ','.join(a[:3 if m.group(1) in ('fshl', 'fshr') else (1 if m.group(1) in ('cttz', 'ctlz', 'ctpop', 'bswap', 'abs') else 2)])),)
    if n.startswith('llvm.x86.') or n.startswith('llvm.'):
        return 'll_' + re.sub(r'[^A-Za-z0-9]', '_', n[5:])
    if n == '__assert_fail':
        return ('LL_ASSERT_FAIL()',)
    return fname(nm)

# ------------------------------------------------------------------ globals
def const_bytes(ty, v, relocs, base):
    """returns bytes; appends (offset, c-expr) to relocs for pointers"""
    rt = resolve(ty); sz = sizeof(rt)
    k = v[0]
    if k in ('zero', 'undef'): return bytes(sz)
    if k == 'int':
        return (v[1] & ((1 << (8 * sz)) - 1)).to_bytes(sz, 'little')
    if k == 'fp':
        import struct
        return struct.pack('<d' if sz == 8 else '<f', v[1])
    if k == 'null': return bytes(8)
    if k == 'bytes': return v[1]
    if k == 'agg':
        out = bytearray(sz)
        if isinstance(rt, StructT):
            for i, (t, x) in enumerate(v[1]):
                o = field_off(rt, i); b = const_bytes(t, x, relocs, base + o); out[o:o+len(b)] = b
        else:
            es = sizeof(rt.el)
            for i, (t, x) in enumerate(v[1]):
                b = const_bytes(t, x, relocs, base + i * es); out[i*es:i*es+len(b)] = b
        return bytes(out)
    if k in ('ref', 'cgep', 'ccast', 'cbin'):
        relocs.append((base, v, ty)); return bytes(sz)
    raise ValueError('const %r' % (v,))

def emit_globals():
    out = []; inits = []
    E = FnEmitter(Func())
    for g in M.globals.values():
        if g['kind'] != 'var': continue
        n = g['name']
        if n.startswith('@llvm.'): continue
        sz = max(1, sizeof(g['ty']))
        al = alignof(g['ty'])
        if g['init'] is None:
            out.append('extern uint8_t g_%s[%d];' % (cname(n), sz)); continue
        relocs = []
        b = const_bytes(g['ty'], g['init'], relocs, 0)
        cq = 'const ' if (g['const'] and not relocs) else ''
        if any(b):
            out.append('static %suint8_t g_%s[%d] __attribute__((aligned(%d))) = {%s};' % (cq, cname(n), sz, max(al, 8 if sz >= 8 else al), ','.join(map(str, b))))
        else:
            out.append('static %suint8_t g_%s[%d] __attribute__((aligned(%d)));' % (cq, cname(n), sz, max(al, 8 if sz >= 8 else al)))
        for off, v, ty in relocs:
            inits.append('  STORE(%s, (uint8_t*)g_%s + %d, %s);' % (ctype(ty), cname(n), off, E.val(ty, v)))
    return out, inits

PRELUDE = r'''
#include <stdint.h>
#include <stddef.h>
#include <stdlib.h>
#include <string.h>
#ifndef __CPROVER__
#include <assert.h>
#define __CPROVER_assert(c,m) assert(c)
#define __CPROVER_assume(c) do{ if(!(c)) abort(); }while(0)
#define __CPROVER_atomic_begin()
#define __CPROVER_atomic_end()
#endif
#ifndef LL_PTRTOINT
#define LL_PTRTOINT(p) ((uint64_t)(p))
#endif
#define LOAD(T,p) (*(T*)(p))
#define STORE(T,p,v) (*(T*)(p) = (v))
#define LL_UNREACHABLE() __CPROVER_assume(0)
#define LL_ASSERT_FAIL() __CPROVER_assert(0, "sonic_assert failed")
#define static_alloca(name, size, al) uint8_t al_##name[size] __attribute__((aligned(al))); r_##name = al_##name
#define BITCAST(F,T,e) ({ union { F f; T t; } u_; u_.f = (e); u_.t; })
static inline void* ll_memmove(uint8_t*d,const uint8_t*s,uint64_t n){ return memmove(d,s,n); }
static inline void* ll_memset(uint8_t*d,uint8_t c,uint64_t n){ return memset(d,c,n); }
static inline uint32_t ll_memcmp(const uint8_t*a,const uint8_t*b,uint64_t n){ return (uint32_t)memcmp(a,b,n); }
static inline uint8_t* ll_new(uint64_t n){ uint8_t*p=malloc(n); __CPROVER_assume(p!=0); return p; }
static inline uint32_t ll_bzhi32(uint32_t src, uint32_t idx){ idx&=0xff; return idx>=32? src : (src & ((1u<<idx)-1u)); }
'''

def emit_helpers():
    out = []
    for nm, (n, el) in sorted(vec_types.items()):
        out.append('typedef struct { %s e[%d]; } %s;\n#define HAVE_%s 1' % (el, n, nm, nm))
    for nm, sz in sorted(struct_types.items()):
        out.append('typedef struct { uint8_t b[%d]; } %s;' % (sz, nm))
    def unroll(n, fmt):
        return ' '.join(fmt.replace('[i]', '[%d]' % i).replace('<<i', '<<%d' % i) for i in range(n))
    for h in sorted(helpers_needed, key=repr):
        if h[0] == 'vbin':
            _, op, vt = h; n, el = vec_types[vt]
            sc = el.replace('uint', 'int')
            expr = {'add': 'a.e[i]+b.e[i]', 'sub': 'a.e[i]-b.e[i]', 'mul': 'a.e[i]*b.e[i]', 'and': 'a.e[i]&b.e[i]', 'or': 'a.e[i]|b.e[i]', 'xor': 'a.e[i]^b.e[i]', 'shl': 'a.e[i]<<b.e[i]', 'lshr': 'a.e[i]>>b.e[i]', 'ashr': '(%s)a.e[i]>>b.e[i]' % sc}[op]
            out.append('static inline %s VBIN_%s_%s(%s a,%s b){ %s r; %s return r; }' % (vt, op, vt, vt, vt, vt, unroll(n, 'r.e[i]=(%s)(%s);' % (el, expr))))
        elif h[0] == 'vcmp':
            _, pred, vt, sc = h; n, el = vec_types[vt]
            o = {'eq': '==', 'ne': '!=', 'ugt': '>', 'uge': '>=', 'ult': '<', 'ule': '<=', 'sgt': '>', 'sge': '>=', 'slt': '<', 'sle': '<='}[pred]
            c = '(%s)' % sc if pred[0] == 's' else ''
            rt = 'v%di1' % n
            out.append('static inline %s VCMP_%s_%s(%s a,%s b){ %s r; %s return r; }' % (rt, pred, vt, vt, vt, rt, unroll(n, 'r.e[i]=(%sa.e[i] %s %sb.e[i]);' % (c, o, c))))
        elif h[0] == 'movemask':
            _, ft, tt, n = h
            out.append('static inline %s movemask_%s_%s(%s a){ %s r=0; %s return r; }' % (tt, ft, tt, ft, tt, unroll(n, 'r|=((%s)(a.e[i]&1))<<i;' % tt)))
        elif h[0] == 'veccast':
            _, op, rf, rt = h; n = rf.n
            fe = ctype(rf.el); te = ctype(rt.el)
            if op == 'sext':
                if resolve(rf.el).n == 1: ex = '(%s)(-(%s)a.e[i])' % (te, sctype(rt.el))
                else: ex = '(%s)(%s)(%s)a.e[i]' % (te, sctype(rt.el), sctype(rf.el))
            else: ex = '(%s)a.e[i]' % te
            out.append('static inline %s %s_%s_%s(%s a){ %s r; %s return r; }' % (ctype(rt), op, ctype(rf), ctype(rt), ctype(rf), ctype(rt), unroll(n, 'r.e[i]=%s;' % ex)))
        elif h[0] == 'vselect':
            _, ct_, vt = h; n, el = vec_types[vt]
            out.append('static inline %s VSELECT_%s(%s c,%s a,%s b){ %s r; %s return r; }' % (vt, vt, ct_, vt, vt, vt, unroll(n, 'r.e[i]=c.e[i]?a.e[i]:b.e[i];')))
        elif h[0] == 'int':
            _, op, ty = h
            if ty[0] != 'i': raise ValueError('vector int intrinsic')
            n = int(ty[1:]); ct = {8: 'uint8_t', 16: 'uint16_t', 32: 'uint32_t', 64: 'uint64_t'}[n]
            if op == 'cttz':
                body = '%s r=0; if(x==0) return %d; ' % (ct, n)
                sh = n // 2
                while sh >= 1:
                    body += 'if((x & (((%s)1<<%d)-1))==0){ r+=%d; x>>=%d; } ' % (ct, sh, sh, sh); sh //= 2
                out.append('static inline %s ll_cttz_%s(%s x){ %s return r; }' % (ct, ty, ct, body))
            elif op == 'ctlz':
                body = '%s r=0; if(x==0) return %d; ' % (ct, n)
                sh = n // 2
                while sh >= 1:
                    body += 'if((x >> %d)==0){ r+=%d; x<<=%d; } ' % (n - sh, sh, sh); sh //= 2
                out.append('static inline %s ll_ctlz_%s(%s x){ %s return r; }' % (ct, ty, ct, body))
            elif op == 'ctpop':
                out.append('static inline %s ll_ctpop_%s(%s x){ %s r=0; %s return r; }' % (ct, ty, ct, ct, ' '.join('r+=(x>>%d)&1;' % i for i in range(n))))
            elif op in ('umin', 'umax'): out.append('static inline %s ll_%s_%s(%s a,%s b){ return a %s b ? a : b; }' % (ct, op, ty, ct, ct, '<' if op == 'umin' else '>'))
            elif op in ('smin', 'smax'):
                sc = ct.replace('uint', 'int'); out.append('static inline %s ll_%s_%s(%s a,%s b){ return (%s)a %s (%s)b ? a : b; }' % (ct, op, ty, ct, ct, sc, '<' if op == 'smin' else '>', sc))
            elif op == 'bswap': out.append('static inline %s ll_bswap_%s(%s x){ %s r=0; %s return r; }' % (ct, ty, ct, ct, ' '.join('r|=((x>>%d)&0xff)<<%d;' % (8*i, 8*(n//8-1-i)) for i in range(n//8))))
            elif op == 'fshl': out.append('static inline %s ll_fshl_%s(%s a,%s b,%s c){ c%%=%d; return c? (a<<c)|(b>>(%d-c)) : a; }' % (ct, ty, ct, ct, ct, n, n))
            elif op == 'fshr': out.append('static inline %s ll_fshr_%s(%s a,%s b,%s c){ c%%=%d; return c? (a<<(%d-c))|(b>>c) : b; }' % (ct, ty, ct, ct, ct, n, n))
            elif op == 'abs': out.append('static inline %s ll_abs_%s(%s a){ return (%s)a<0 ? -a : a; }' % (ct, ty, ct, ct.replace('uint', 'int')))
            else: raise ValueError(op)
    return out

def main():
    src = open(sys.argv[1]).read()
    only = set(sys.argv[3:]) if len(sys.argv) > 3 else None
    parse_module(src)
    fbodies = []
    protos = []
    for f in M.funcs.values():
        if f.name.startswith('@_GLOBAL__') or f.name.startswith('@__cxx_global'): continue
        try:
            fbodies.append(emit_func(f))
            protos.append('%s %s(%s);' % (ctype(f.ret), fname(f.name), ', '.join(ctype(t) for t, _ in f.params) or 'void'))
        except Exception as e:
            sys.stderr.write('SKIP %s: %s\n' % (f.name, e))
            if '--strict' in sys.argv: raise
    for n, (ret, args, va) in M.decls.items():
        if n.startswith('@llvm.'): continue
        fn = fname(n)
        if fn.startswith('x_'):
            protos.append('%s %s(%s);' % (ctype(ret), fn, ', '.join(ctype(t) for t in args) or 'void'))
    gl, inits = emit_globals()
    helpers = emit_helpers()
    # vec typedefs must come first: regenerate after all ctype() calls
    helpers = emit_helpers()
    with open(sys.argv[2], 'w') as o:
        o.write(PRELUDE)
        o.write('\n'.join(helpers) + '\n')
        o.write('#include "ll_intrinsics.h"\n')
        o.write('\n'.join(protos) + '\n')
        o.write('\n'.join(gl) + '\n')
        o.write('void ll_init_globals(void){\n' + '\n'.join(inits) + '\n}\n')
        o.write('\n\n'.join(fbodies) + '\n')

if __name__ == '__main__':
    main()
