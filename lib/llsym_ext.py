"""External functions, LLVM/x86 intrinsics and the verif_* harness API for llsym."""
import re, z3
from llsym import (Violation, Inconclusive, PathEnd, NeedFork, is_sym, bv, simp, m, sx, sbin, sicmp, sel, bit, M64,
                   vec_to_int, int_to_vec, addadr)
from ll2c import IntT, VecT, resolve


def cstring(E, st, a, maxlen=4096):
    out = bytearray()
    for i in range(maxlen):
        c = E.load_bytes(st, a + i, 1)
        if type(c) is not int: raise Inconclusive('symbolic C string')
        if c == 0: break
        out.append(c)
    return out.decode('latin1')


_cur = [None]


def need_int(x):
    if type(x) is int: return x
    c = _cur[0].concr.get(x.get_id())
    if c is not None: return c[1]
    raise NeedFork(x)


def memcpy(E, st, d, s_, ln):
    ln = need_int(ln); d = need_int(d); s_ = need_int(s_)
    if ln == 0: return
    so, soff = E.resolve_addr(st, s_, ln, False)
    do, doff = E.resolve_addr(st, d, ln, True)
    if st.track is not None:
        E.on_access(st, so, soff, ln, False); E.on_access(st, do, doff, ln, True)
    if None in so.b[soff:soff + ln]:
        # copying never-written bytes is fine (padding); they stay undefined but must be the *same* unknown
        so = st.wobj(so)
        for i in range(soff, soff + ln):
            if so.b[i] is None: so.b[i] = E.fresh_undef(st)
    vals = so.b[soff:soff + ln]
    vals = [((z3.Extract(8 * x[1] + 7, 8 * x[1], x[0])) if type(x) is tuple else x) for x in vals]
    do = st.wobj(st.objs[do.base])
    do.b[doff:doff + ln] = vals


def memset(E, st, d, c, ln):
    ln = need_int(ln); d = need_int(d)
    if ln == 0: return
    do, doff = E.resolve_addr(st, d, ln, True)
    if st.track is not None: E.on_access(st, do, doff, ln, True)
    do = st.wobj(do)
    if type(c) is int: c &= 255
    do.b[doff:doff + ln] = [c] * ln


def memcmp(E, st, a, b, ln, want_order=True):
    ln = need_int(ln); a = need_int(a); b = need_int(b)
    if ln == 0: return 0
    E.resolve_addr(st, a, ln, False); E.resolve_addr(st, b, ln, False)
    xs = [E.load_bytes(st, a + i, 1) for i in range(ln)]
    ys = [E.load_bytes(st, b + i, 1) for i in range(ln)]
    r = 0
    for x, y in reversed(list(zip(xs, ys))):
        if type(x) is int and type(y) is int:
            if x != y: r = (1 if x > y else M64 >> 32)  # -1 as i32
            continue
        X = bv(x, 8); Y = bv(y, 8)
        r = z3.If(X == Y, bv(r, 32), z3.If(z3.UGT(X, Y), z3.BitVecVal(1, 32), z3.BitVecVal(0xffffffff, 32)))
    return simp(r) if is_sym(r) else r


def ctz_like(kind, w, x):
    if type(x) is int:
        if kind == 'ctpop': return bin(x).count('1')
        if x == 0: return w
        if kind == 'cttz': return (x & -x).bit_length() - 1
        return w - x.bit_length()
    if kind == 'ctpop':
        r = z3.BitVecVal(0, w)
        for i in range(w): r = r + z3.ZeroExt(w - 1, z3.Extract(i, i, x))
        return simp(r)
    bits = [bit(x, i) for i in range(w)]
    order = range(w) if kind == 'cttz' else range(w - 1, -1, -1)
    # result = index of first set bit in `order`; stop at the first concretely-set bit
    chain = []
    final = w
    for n_, i in enumerate(order):
        b = bits[i]
        val = i if kind == 'cttz' else w - 1 - i
        if type(b) is int:
            if b == 1: final = val; break
            continue
        chain.append((b, val))
    r = z3.BitVecVal(final, w)
    for b, val in reversed(chain):
        r = z3.If(b == 1, z3.BitVecVal(val, w), r)
    return simp(r)


def sat_u(v, w):  # unsigned saturate python int
    return 0 if v < 0 else (m(w) if v > m(w) else v)


def external_call(E, st, fr, n, rt, a):
    _cur[0] = st
    # ----------------------------------------------------------- harness API
    if n.startswith('verif_'): return verif_api(E, st, fr, n, a)
    # ----------------------------------------------------------- llvm intrinsics
    if n.startswith('llvm.'):
        if n.startswith('llvm.lifetime') or n.startswith('llvm.dbg') or n.startswith('llvm.experimental.noalias') or n.startswith('llvm.prefetch'): return None
        if n.startswith('llvm.assume'): return None
        if n.startswith('llvm.memcpy') or n.startswith('llvm.memmove'): memcpy(E, st, a[0], a[1], a[2]); return None
        if n.startswith('llvm.memset'): memset(E, st, a[0], a[1], a[2]); return None
        mm = re.match(r'llvm\.(cttz|ctlz|ctpop)\.i(\d+)$', n)
        if mm: return ctz_like(mm.group(1), int(mm.group(2)), a[0])
        mm = re.match(r'llvm\.(umin|umax|smin|smax)\.i(\d+)$', n)
        if mm:
            w = int(mm.group(2)); k = mm.group(1)
            pred = {'umin': 'ult', 'umax': 'ugt', 'smin': 'slt', 'smax': 'sgt'}[k]
            return sel(sicmp(pred, w, a[0], a[1]), a[0], a[1], w)
        mm = re.match(r'llvm\.(umin|umax|smin|smax)\.v(\d+)i(\d+)$', n)
        if mm:
            w = int(mm.group(3)); k = mm.group(1)
            pred = {'umin': 'ult', 'umax': 'ugt', 'smin': 'slt', 'smax': 'sgt'}[k]
            return [sel(sicmp(pred, w, x, y), x, y, w) for x, y in zip(a[0], a[1])]
        mm = re.match(r'llvm\.abs\.i(\d+)$', n)
        if mm:
            w = int(mm.group(1)); return sel(sicmp('slt', w, a[0], 0), sbin('sub', w, 0, a[0]), a[0], w)
        mm = re.match(r'llvm\.bswap\.i(\d+)$', n)
        if mm:
            w = int(mm.group(1)); bs = int_to_vec(a[0], 8, w // 8); return vec_to_int(list(reversed(bs)), 8)
        mm = re.match(r'llvm\.(fshl|fshr)\.i(\d+)$', n)
        if mm:
            w = int(mm.group(2)); sh = a[2]
            sh = need_int(sh)
            sh %= w
            if sh == 0: return a[0] if mm.group(1) == 'fshl' else a[1]
            if mm.group(1) == 'fshl': return sbin('or', w, sbin('shl', w, a[0], sh), sbin('lshr', w, a[1], w - sh))
            return sbin('or', w, sbin('shl', w, a[0], w - sh), sbin('lshr', w, a[1], sh))
        mm = re.match(r'llvm\.(uadd|usub|umul|sadd|ssub|smul)\.with\.overflow\.i(\d+)$', n)
        if mm:
            w = int(mm.group(2)); k = mm.group(1)
            x, y = a
            if type(x) is int and type(y) is int:
                if k[0] == 'u':
                    full = {'uadd': x + y, 'usub': x - y, 'umul': x * y}[k]
                    return [full & m(w), int(full < 0 or full > m(w))]
                xs, ys = sx(x, w), sx(y, w)
                full = {'sadd': xs + ys, 'ssub': xs - ys, 'smul': xs * ys}[k]
                return [full & m(w), int(full < -(1 << (w - 1)) or full >= (1 << (w - 1)))]
            X = bv(x, w); Y = bv(y, w)
            if k[0] == 'u':
                XX = z3.ZeroExt(w, X); YY = z3.ZeroExt(w, Y)
            else:
                XX = z3.SignExt(w, X); YY = z3.SignExt(w, Y)
            full = {'add': XX + YY, 'sub': XX - YY, 'mul': XX * YY}[k[1:]]
            lo = z3.Extract(w - 1, 0, full)
            back = z3.ZeroExt(w, lo) if k[0] == 'u' else z3.SignExt(w, lo)
            return [simp(lo), simp(z3.If(back != full, z3.BitVecVal(1, 1), z3.BitVecVal(0, 1)))]
        mm = re.match(r'llvm\.(uadd|usub)\.sat\.v(\d+)i(\d+)$', n)
        if mm:
            w = int(mm.group(3)); k = mm.group(1)
            out = []
            for x, y in zip(a[0], a[1]):
                if k == 'usub': out.append(sel(sicmp('ugt', w, x, y), sbin('sub', w, x, y), 0, w))
                else:
                    s_ = sbin('add', w, x, y); out.append(sel(sicmp('ult', w, s_, x), m(w), s_, w))
            return out
        mm = re.match(r'llvm\.(uadd|usub)\.sat\.i(\d+)$', n)
        if mm:
            w = int(mm.group(2)); x, y = a
            if mm.group(1) == 'usub': return sel(sicmp('ugt', w, x, y), sbin('sub', w, x, y), 0, w)
            s_ = sbin('add', w, x, y); return sel(sicmp('ult', w, s_, x), m(w), s_, w)
        if n.startswith('llvm.fabs.'):
            w = 64 if n.endswith('f64') else 32
            return sbin('and', w, a[0], m(w - 1))
        if n.startswith('llvm.vector.reduce.or.') or n.startswith('llvm.vector.reduce.and.') or n.startswith('llvm.vector.reduce.add.'):
            mm = re.match(r'llvm\.vector\.reduce\.(\w+)\.v(\d+)i(\d+)$', n); op = mm.group(1); w = int(mm.group(3))
            r = a[0][0]
            for x in a[0][1:]: r = sbin(op, w, r, x)
            return r
        if n.startswith('llvm.masked.'): raise Inconclusive('intrinsic ' + n)
        if n.startswith('llvm.x86.'): return x86(E, st, n, a)
        if n.startswith('llvm.load.relative'):
            base = need_int(a[0]); off = need_int(a[1])
            rel = E.load_bytes(st, (base + off) & M64, 4)
            rel = need_int(rel)
            return (base + sx(rel, 32)) & M64
        if n.startswith('llvm.expect'): return a[0]
        if n in ('llvm.trap', 'llvm.debugtrap'): raise Violation('trap', 'llvm.trap reached (abort)')
        if n.startswith('llvm.stacksave'): return 0
        if n.startswith('llvm.stackrestore'): return None
        if n.startswith('llvm.is.constant'): return 0
        if n.startswith('llvm.objectsize'): return M64
        raise Inconclusive('intrinsic ' + n)
    # ----------------------------------------------------------- libc / libstdc++
    if n in ('malloc', '_Znwm', '_Znam'):
        sz = need_int(a[0])
        if sz > (1 << 40): raise Violation('hugealloc', 'allocation of %d bytes' % sz)
        return E.alloc_heap(st, sz, n + '(%d)' % sz)
    if n in ('_ZnwmSt11align_val_t', 'aligned_alloc', 'memalign'):
        sz = need_int(a[0] if n.startswith('_Z') else a[1]); al = need_int(a[1] if n.startswith('_Z') else a[0])
        return E.alloc_heap(st, sz, n + '(%d)' % sz, align=max(16, al))
    if n == 'posix_memalign':
        p = E.alloc_heap(st, need_int(a[2]), 'posix_memalign', align=max(16, need_int(a[1])))
        E.store_bytes(st, a[0], 8, p); return 0
    if n == 'calloc':
        sz = need_int(a[0]) * need_int(a[1]); return E.alloc_heap(st, sz, 'calloc(%d)' % sz, fill=0)
    if n in ('free', '_ZdlPv', '_ZdaPv', '_ZdlPvm', '_ZdaPvm', '_ZdlPvSt11align_val_t', '_ZdlPvmSt11align_val_t'):
        E.free(st, need_int(a[0]), 'free' if n == 'free' else 'delete'); return None
    if n == 'realloc':
        p = need_int(a[0]); sz = need_int(a[1])
        if p == 0: return E.alloc_heap(st, sz, 'realloc(%d)' % sz)
        if sz == 0: E.free(st, p); return 0
        o = st.objs.get(p)
        if o is None or o.kind != 'heap' or o.freed:
            E.free(st, p, 'realloc')  # raises
        q = E.alloc_heap(st, sz, 'realloc(%d)' % sz)
        k = min(sz, o.size)
        no = st.wobj(st.objs[q]); no.b[0:k] = o.b[0:k]
        E.free(st, p, 'realloc')
        return q
    if n in ('memcpy', 'memmove'): memcpy(E, st, a[0], a[1], a[2]); return a[0]
    if n == 'memset': memset(E, st, a[0], a[1], a[2]); return a[0]
    if n == 'memcmp': return memcmp(E, st, a[0], a[1], a[2])
    if n == 'bcmp': return memcmp(E, st, a[0], a[1], a[2])
    if n == 'strlen':
        p_ = need_int(a[0]); k = 0
        while True:
            c = E.load_bytes(st, p_ + k, 1)
            if type(c) is not int: c = need_int(c)
            if c == 0: return k
            k += 1
            if k > (1 << 20): raise Inconclusive('strlen without terminator')
    if n == 'memchr':
        p_ = need_int(a[0]); ch = need_int(a[1]) & 255; ln = need_int(a[2])
        for k in range(ln):
            c = E.load_bytes(st, p_ + k, 1)
            if type(c) is not int: c = need_int(c)
            if c == ch: return p_ + k
        return 0
    if n == '_ZNSt7__cxx1112basic_stringIcSt11char_traitsIcESaIcEE9_M_createERmm':
        # std::string::_M_create(size_type& capacity, size_type old_capacity) -- libstdc++ contract: grow policy, allocate capacity+1
        capp = need_int(a[1]); old = need_int(a[2]); cap = need_int(E.load_bytes(st, capp, 8))
        if cap > (1 << 62): raise Violation('throw', 'std::string length_error')
        if cap > old and cap < 2 * old: cap = 2 * old
        E.store_bytes(st, capp, 8, cap)
        return E.alloc_heap(st, cap + 1, 'std::string(%d)' % cap)
    if n in ('_ZNSt7__cxx1112basic_stringIcSt11char_traitsIcESaIcEEC2EPKcmRKS3_', '_ZNSt7__cxx1112basic_stringIcSt11char_traitsIcESaIcEEC1EPKcmRKS3_'):
        # std::string(const char* s, size_t n, const allocator&): libstdc++ SSO layout {ptr, size, union{buf[16], capacity}}
        this = need_int(a[0]); src = need_int(a[1]); ln = need_int(a[2])
        if ln <= 15: data = this + 16
        else:
            data = E.alloc_heap(st, ln + 1, 'std::string(%d)' % ln); E.store_bytes(st, this + 16, 8, ln)
        E.store_bytes(st, this, 8, data); E.store_bytes(st, this + 8, 8, ln)
        if ln: memcpy(E, st, data, src, ln)
        E.store_bytes(st, data + ln, 1, 0)
        return None
    if n == '__assert_fail':
        raise Violation('assert', 'sonic_assert failed: %s (%s:%s)' % (cstring(E, st, a[0]), cstring(E, st, a[1]).split('/')[-1], a[2]))
    if n in ('abort', 'exit', '_exit', '__cxa_pure_virtual', '_ZSt9terminatev'):
        raise Violation('abort', n + ' called')
    if n.startswith('_ZSt') and 'throw' in n:
        raise Violation('throw', 'libstdc++ ' + n + ' called')
    if n in ('__cxa_allocate_exception', '__cxa_throw'): raise Violation('throw', 'exception thrown')
    if n in ('__cxa_atexit', '__cxa_thread_atexit'): return 0
    if n == '__cpu_indicator_init': return None
    if n in ('_ZNSt8ios_base4InitC1Ev', '_ZNSt8ios_base4InitD1Ev'): return None
    if n == '__cxa_guard_acquire':
        v = E.load_bytes(st, a[0], 1)
        return 1 if v == 0 else 0
    if n == '__cxa_guard_release':
        E.store_bytes(st, a[0], 1, 1); return None
    if n == '__cxa_guard_abort': return None
    if n in ('puts', 'printf', 'fprintf', 'fputs', 'fflush', 'putchar', 'fwrite'): return 0
    if n == '_ZSt18_Rb_tree_incrementPSt18_Rb_tree_node_base' or n == '_ZSt18_Rb_tree_incrementPKSt18_Rb_tree_node_base':
        return rb_next(E, st, need_int(a[0]), 16, 24)
    if n == '_ZSt18_Rb_tree_decrementPSt18_Rb_tree_node_base' or n == '_ZSt18_Rb_tree_decrementPKSt18_Rb_tree_node_base':
        return rb_prev(E, st, need_int(a[0]))
    if n == '_ZSt29_Rb_tree_insert_and_rebalancebPSt18_Rb_tree_node_baseS0_RS_':
        return rb_insert(E, st, need_int(a[0]), need_int(a[1]), need_int(a[2]), need_int(a[3]))
    if n == '_ZSt28_Rb_tree_rebalance_for_erasePSt18_Rb_tree_node_baseRS_':
        return rb_erase(E, st, need_int(a[0]), need_int(a[1]))
    raise Inconclusive('external function ' + n)


# ---------------------------------------------------------------- libstdc++ red-black tree helpers, as an
# UNBALANCED binary search tree with the same in-order contract (stub; listed in the evidence).
# node layout (_Rb_tree_node_base): +0 color(i32) +8 parent +16 left +24 right ; header: parent=root, left=leftmost, right=rightmost
def _ld(E, st, a): return E.load_bytes(st, a, 8)
def _st(E, st, a, v): E.store_bytes(st, a, 8, v)


def rb_min(E, st, x):
    while True:
        l = _ld(E, st, x + 16)
        if l == 0: return x
        x = l


def rb_max(E, st, x):
    while True:
        r = _ld(E, st, x + 24)
        if r == 0: return x
        x = r


def rb_is_header(E, st, x):
    # libstdc++: header is recognised in decrement by color==red && parent.parent==x
    p = _ld(E, st, x + 8)
    return E.load_bytes(st, x, 4) == 0 and p != 0 and _ld(E, st, p + 8) == x and False


def rb_next(E, st, x, L, Rr):
    r = _ld(E, st, x + 24)
    if r != 0: return rb_min(E, st, r)
    y = _ld(E, st, x + 8)
    while x == _ld(E, st, y + 24):
        x = y; y = _ld(E, st, y + 8)
    if _ld(E, st, x + 24) != y: x = y
    return x


def rb_prev(E, st, x):
    # header: color red and parent->parent == x
    if E.load_bytes(st, x, 4) == 0 and _ld(E, st, x + 8) != 0 and _ld(E, st, _ld(E, st, x + 8) + 8) == x:
        return _ld(E, st, x + 24)
    l = _ld(E, st, x + 16)
    if l != 0: return rb_max(E, st, l)
    y = _ld(E, st, x + 8)
    while x == _ld(E, st, y + 16):
        x = y; y = _ld(E, st, y + 8)
    return y


def rb_insert(E, st, insert_left, x, p, header):
    _st(E, st, x + 8, p); _st(E, st, x + 16, 0); _st(E, st, x + 24, 0); E.store_bytes(st, x, 4, 1)  # black: never looks like the header
    if insert_left:
        _st(E, st, p + 16, x)
        if p == header:
            _st(E, st, header + 8, x); _st(E, st, header + 24, x)
        elif p == _ld(E, st, header + 16):
            _st(E, st, header + 16, x)
    else:
        _st(E, st, p + 24, x)
        if p == _ld(E, st, header + 24): _st(E, st, header + 24, x)
    return None


def rb_erase(E, st, z, header):
    root = _ld(E, st, header + 8)
    zl = _ld(E, st, z + 16); zr = _ld(E, st, z + 24); zp = _ld(E, st, z + 8)
    def replace(old, new):
        p = _ld(E, st, old + 8)
        if p == header: _st(E, st, header + 8, new)
        elif _ld(E, st, p + 16) == old: _st(E, st, p + 16, new)
        else: _st(E, st, p + 24, new)
        if new != 0: _st(E, st, new + 8, p)
    # successor/predecessor bookkeeping for leftmost/rightmost
    if _ld(E, st, header + 16) == z:
        _st(E, st, header + 16, rb_next(E, st, z, 16, 24) if (zr != 0 or zp != header) else header)
    if _ld(E, st, header + 24) == z:
        _st(E, st, header + 24, rb_prev(E, st, z) if (zl != 0 or zp != header) else header)
    if zl == 0: replace(z, zr)
    elif zr == 0: replace(z, zl)
    else:
        y = rb_min(E, st, zr)
        if _ld(E, st, y + 8) != z:
            replace(y, _ld(E, st, y + 24))
            _st(E, st, y + 24, zr); _st(E, st, zr + 8, y)
        replace(z, y)
        _st(E, st, y + 16, zl); _st(E, st, zl + 8, y)
    if _ld(E, st, header + 8) == 0:
        _st(E, st, header + 16, header); _st(E, st, header + 24, header)
    return z


# ---------------------------------------------------------------- x86
def x86(E, st, n, a):
    if n in ('llvm.x86.avx2.pshuf.b', 'llvm.x86.ssse3.pshuf.b.128'):
        x, y = a; out = []
        for i in range(len(x)):
            yi = y[i]; lane = i & ~15
            if type(yi) is int: out.append(0 if yi & 0x80 else x[lane + (yi & 15)])
            else:
                src = x[lane:lane + 16]
                if all(type(t) is int for t in src):
                    byval = {}
                    for k in range(16): byval.setdefault(src[k], []).append(k)
                    items = sorted(byval.items(), key=lambda kv: -len(kv[1]))
                    e = z3.BitVecVal(items[0][0], 8)
                    lo = z3.Extract(3, 0, yi)
                    for v_, ks in items[1:]:
                        e = z3.If(z3.Or(*[lo == k for k in ks]), z3.BitVecVal(v_, 8), e)
                else:
                    e = z3.BitVecVal(0, 8); lo = z3.Extract(3, 0, yi)
                    for k in range(16): e = z3.If(lo == k, bv(src[k], 8), e)
                out.append(simp(z3.If(z3.Extract(7, 7, yi) == 1, z3.BitVecVal(0, 8), e)))
        return out
    if n == 'llvm.x86.pclmulqdq':
        imm = a[2]
        x = a[0][imm & 1]; y = a[1][(imm >> 4) & 1]
        if type(x) is int and type(y) is int:
            lo = 0
            for i in range(64):
                if (y >> i) & 1: lo ^= x << i
            return [lo & M64, lo >> 64]
        if type(y) is int and y == M64:
            # prefix xor: bit i of result = xor of bits 0..i of x (low half); high half = xor of bits i-63..63
            bits = [bit(x, i) for i in range(64)]
            acc = 0; lo_bits = []
            for b_ in bits:
                acc = sbin('xor', 1, acc, b_); lo_bits.append(acc)
            lo = vec_to_int(lo_bits, 1)
            hi_bits = []
            # high bit j (0..62) = xor of bits j+1..63 ; bit 63 = 0
            suf = 0; tmp = [0] * 64
            for j in range(62, -1, -1):
                suf = sbin('xor', 1, suf, bits[j + 1]); tmp[j] = suf
            hi = vec_to_int(tmp, 1)
            return [lo, hi]
        X = z3.ZeroExt(64, bv(x, 64)); r = z3.BitVecVal(0, 128)
        if type(y) is int:
            for i in range(64):
                if (y >> i) & 1: r = r ^ (X << i)
        else:
            for i in range(64): r = r ^ z3.If(z3.Extract(i, i, y) == 1, X << i, z3.BitVecVal(0, 128))
        return [simp(z3.Extract(63, 0, r)), simp(z3.Extract(127, 64, r))]
    if n in ('llvm.x86.ssse3.pmadd.ub.sw.128', 'llvm.x86.avx2.pmadd.ub.sw'):
        x, y = a; out = []
        for i in range(len(x) // 2):
            def prod(u, s_):
                if type(u) is int and type(s_) is int: return u * sx(s_, 8)
                return z3.ZeroExt(24, bv(u, 8)) * z3.SignExt(24, bv(s_, 8))
            p0 = prod(x[2 * i], y[2 * i]); p1 = prod(x[2 * i + 1], y[2 * i + 1])
            if type(p0) is int and type(p1) is int:
                t = p0 + p1; t = max(-32768, min(32767, t)); out.append(t & 0xffff)
            else:
                t = bv(p0 & 0xffffffff if type(p0) is int else p0, 32) + bv(p1 & 0xffffffff if type(p1) is int else p1, 32)
                r = z3.If(t > 32767, z3.BitVecVal(32767, 32), z3.If(t < -32768, z3.BitVecVal(-32768, 32), t))
                out.append(simp(z3.Extract(15, 0, r)))
        return out
    if n in ('llvm.x86.sse2.pmadd.wd', 'llvm.x86.avx2.pmadd.wd'):
        x, y = a; out = []
        for i in range(len(x) // 2):
            def prod(u, v):
                if type(u) is int and type(v) is int: return (sx(u, 16) * sx(v, 16)) & 0xffffffff
                return z3.SignExt(16, bv(u, 16)) * z3.SignExt(16, bv(v, 16))
            out.append(sbin('add', 32, prod(x[2 * i], y[2 * i]), prod(x[2 * i + 1], y[2 * i + 1])))
        return out
    if n in ('llvm.x86.sse41.packusdw', 'llvm.x86.avx2.packusdw', 'llvm.x86.sse2.packuswb.128', 'llvm.x86.avx2.packuswb',
             'llvm.x86.sse2.packsswb.128', 'llvm.x86.sse2.packssdw.128'):
        x, y = a
        wi = 32 if 'dw' in n.split('.')[-1 if 'avx2' in n or 'sse41' in n else -2] else 16
        wi = 32 if ('packusdw' in n or 'packssdw' in n) else 16
        wo = wi // 2; signed_out = 'packss' in n
        lanes = 2 if 'avx2' in n else 1; per = len(x) // lanes
        out = []
        for L in range(lanes):
            for src in (x, y):
                for i in range(per):
                    v = src[L * per + i]
                    if type(v) is int:
                        sv = sx(v, wi)
                        if signed_out: sv = max(-(1 << (wo - 1)), min((1 << (wo - 1)) - 1, sv)); out.append(sv & m(wo))
                        else: out.append(sat_u(sv, wo))
                    else:
                        if signed_out:
                            hi = (1 << (wo - 1)) - 1; lo = -(1 << (wo - 1))
                            r = z3.If(v > hi, z3.BitVecVal(hi, wi), z3.If(v < lo, z3.BitVecVal(lo, wi), v))
                        else:
                            r = z3.If(v < 0, z3.BitVecVal(0, wi), z3.If(v > m(wo), z3.BitVecVal(m(wo), wi), v))
                        out.append(simp(z3.Extract(wo - 1, 0, r)))
        return out
    if n in ('llvm.x86.sse2.pmulhu.w', 'llvm.x86.avx2.pmulhu.w', 'llvm.x86.sse2.pmulh.w'):
        x, y = a; out = []; sg = n.endswith('pmulh.w')
        for u, v in zip(x, y):
            if type(u) is int and type(v) is int:
                out.append((((sx(u, 16) * sx(v, 16)) if sg else u * v) >> 16) & 0xffff)
            else:
                ext = z3.SignExt if sg else z3.ZeroExt
                out.append(simp(z3.Extract(31, 16, ext(16, bv(u, 16)) * ext(16, bv(v, 16)))))
        return out
    if n in ('llvm.x86.sse2.pmovmskb.128', 'llvm.x86.avx2.pmovmskb'):
        x = a[0]; bits = [bit(t, 7) for t in x]
        r = vec_to_int(bits, 1)
        return r if type(r) is int else simp(z3.ZeroExt(32 - len(bits), r)) if len(bits) < 32 else r
    if n in ('llvm.x86.bmi.bzhi.64', 'llvm.x86.bmi.bzhi.32'):
        w = 64 if n.endswith('64') else 32
        x, i = a
        if type(i) is int:
            i &= 255
            return x if i >= w else sbin('and', w, x, m(i))
        idx = simp(bv(i, w) & 255)
        msk = z3.If(z3.UGE(idx, w), z3.BitVecVal(m(w), w), (z3.BitVecVal(1, w) << idx) - 1)
        return simp(bv(x, w) & msk)
    if n in ('llvm.x86.sse2.psad.bw', 'llvm.x86.avx2.psad.bw'):
        x, y = a; out = []
        for g in range(len(x) // 8):
            acc = 0
            for i in range(8):
                u = x[g * 8 + i]; v = y[g * 8 + i]
                if type(u) is int and type(v) is int: d = abs(u - v)
                else:
                    U = z3.ZeroExt(56, bv(u, 8)); V = z3.ZeroExt(56, bv(v, 8)); d = z3.If(z3.UGT(U, V), U - V, V - U)
                acc = sbin('add', 64, acc, d) if not (type(acc) is int and type(d) is int) else acc + d
            out.append(acc)
        return out
    if n in ('llvm.x86.sse2.psrli.w', 'llvm.x86.sse2.psrli.d', 'llvm.x86.sse2.psrli.q', 'llvm.x86.sse2.pslli.w', 'llvm.x86.sse2.pslli.d', 'llvm.x86.sse2.pslli.q',
             'llvm.x86.avx2.psrli.w', 'llvm.x86.avx2.psrli.d', 'llvm.x86.avx2.psrli.q', 'llvm.x86.avx2.pslli.w', 'llvm.x86.avx2.pslli.d', 'llvm.x86.avx2.pslli.q'):
        w = {'w': 16, 'd': 32, 'q': 64}[n[-1]]; sh = need_int(a[1]); op = 'lshr' if 'psrli' in n else 'shl'
        return [0 if sh >= w else sbin(op, w, x, sh) for x in a[0]]
    raise Inconclusive('x86 intrinsic ' + n)


def dec2double_bits(txt):
    """nearest-even IEEE-754 double of a decimal text, by exact rational arithmetic (the C04 oracle)."""
    from fractions import Fraction
    neg = txt.startswith('-')
    x = abs(Fraction(txt))
    sign = (1 << 63) if neg else 0
    if x == 0: return sign
    e = x.numerator.bit_length() - x.denominator.bit_length() - 53     # x / 2^e is roughly 2^53
    while x / Fraction(2) ** e >= (1 << 53): e += 1
    while x / Fraction(2) ** e < (1 << 52): e -= 1
    if e < -1074: e = -1074                                              # subnormal: fixed exponent
    y = x / Fraction(2) ** e
    q = y.numerator // y.denominator; r = y - q
    if r > Fraction(1, 2) or (r == Fraction(1, 2) and (q & 1)): q += 1
    if q == (1 << 53): q >>= 1; e += 1
    if q < (1 << 52): return sign | q                                    # subnormal (or zero)
    bexp = e + 1075
    if bexp >= 0x7ff: return sign | (0x7ff << 52)
    return sign | (bexp << 52) | (q & ((1 << 52) - 1))


# ---------------------------------------------------------------- harness API
def verif_api(E, st, fr, n, a):
    if n == 'verif_symbolic':
        p = need_int(a[0]); ln = need_int(a[1]); name = cstring(E, st, a[2])
        cnt = sum(1 for x in st.inputs if x[0] == name or x[0].startswith(name + '#'))
        if cnt: name = '%s#%d' % (name, cnt)
        vars_ = [z3.BitVec('in!%s!%d' % (name, i), 8) for i in range(ln)]
        if ln:
            o, off = E.resolve_addr(st, p, ln, True); o = st.wobj(o); o.b[off:off + ln] = vars_
        st.inputs.append((name, 'bytes', vars_))
        return None
    if n == 'verif_range':
        lo = need_int(a[0]); hi = need_int(a[1]); name = cstring(E, st, a[2])
        cnt = sum(1 for x in st.inputs if x[0] == name or x[0].startswith(name + '#'))
        if cnt: name = '%s#%d' % (name, cnt)
        if lo == hi:
            st.inputs.append((name, 'int', z3.BitVecVal(lo, 64))); return lo
        v = z3.BitVec('in!%s' % name, 64)
        st.inputs.append((name, 'int', v))
        if not E.assume(st, z3.And(z3.ULE(lo, v), z3.ULE(v, hi))): raise PathEnd()
        return v
    if n == 'verif_assume':
        c = a[0]
        if type(c) is int:
            if c == 0: raise PathEnd()
            return None
        if not E.assume(st, c != 0): raise PathEnd()
        return None
    if n == 'verif_check':
        c = a[0]
        if type(c) is int:
            if c == 0: raise Violation('property', cstring(E, st, a[1]))
            return None
        E.stats['checks'] = E.stats.get('checks', 0) + 1
        if E.sat(st.pc, c == 0):
            st.pc.append(c == 0); st.model = E.last_model
            raise Violation('property', cstring(E, st, a[1]))
        return None
    if n == 'verif_fail':
        raise Violation('property', cstring(E, st, a[0]))
    if n == 'verif_param':
        i = need_int(a[0])
        return (E.params[i] if i < len(E.params) else 0) & M64
    if n == 'verif_live_heap': return st.live_heap
    if n == 'verif_note':
        st.notes.append((cstring(E, st, a[0]), a[1] if type(a[1]) is int else str(a[1])[:80])); return None
    if n == 'verif_concrete':
        return need_int(a[0])
    if n == 'verif_is_replay': return 0
    if n == 'verif_alloc_page_end':
        sz = need_int(a[0]); dist = need_int(a[1]); slack = need_int(a[2])
        # block of sz bytes whose last byte is `dist` bytes before the end of a mapped page, followed by `slack` readable
        # foreign bytes (never written => unconstrained) and then unmapped memory
        if slack > dist: slack = dist
        page = (st.heap_next + 3 * 4096) // 4096 * 4096
        st.heap_next = page + 2 * 4096
        base = page + 4096 - dist - sz
        E.alloc_at(st, base, sz + slack, 'page_end(len=%d,dist=%d,slack=%d)' % (sz, dist, slack))
        return base
    if n == 'verif_map_slack':
        # declare `k` readable-but-foreign bytes right after the block that ends at address a[0] (rest of a mapped page)
        addr = need_int(a[0]); k = need_int(a[1])
        if k: E.alloc_at(st, addr, k, 'page_slack', kind='slack')
        return None
    if n == 'verif_oracle_text2double':
        # exact oracle: nearest-even double of a decimal text (python's float() is correctly rounded; checked against Fraction)
        p_ = need_int(a[0]); ln = need_int(a[1])
        txt = bytes(need_int(E.load_bytes(st, p_ + i, 1)) for i in range(ln)).decode('latin1')
        bits = dec2double_bits(txt)
        import struct
        try: f = float(txt)
        except OverflowError: f = float('inf')
        if struct.unpack('<Q', struct.pack('<d', f))[0] != bits: raise Inconclusive('oracle self-check failed for ' + txt)
        return bits
    if n == 'verif_oracle_ftoa':
        import struct, re as _re
        from decimal import Decimal
        bits = need_int(a[0]); p_ = need_int(a[1]); ln = need_int(a[2])
        txt = bytes(need_int(E.load_bytes(st, p_ + i, 1)) for i in range(ln)).decode('latin1')
        if not _re.fullmatch(r'-?(0|[1-9][0-9]*)(\.[0-9]+)?([eE][-+]?[0-9]+)?', txt) or not ('.' in txt or 'e' in txt or 'E' in txt): return 1
        if dec2double_bits(txt) != bits: return 2
        d = struct.unpack('<d', struct.pack('<Q', bits))[0]
        def norm(s_):
            t = Decimal(s_).as_tuple(); digs = list(t.digits); e = t.exponent
            while len(digs) > 1 and digs[-1] == 0: digs.pop(); e += 1
            while len(digs) > 1 and digs[0] == 0: digs.pop(0)
            return digs, e
        mine, me = norm(txt); ref, re_ = norm(repr(d))       # python's repr is the shortest round-trip decimal, closest to the value
        if d == 0.0: return 0
        if len(mine) > len(ref): return 3
        if len(mine) < len(ref): raise Inconclusive('oracle: shorter than python repr ' + txt)
        if mine != ref or me != re_:
            # same length, different digits: both read back; closer one must win
            from fractions import Fraction
            v = Fraction(d); x = Fraction(Decimal(txt)); y = Fraction(Decimal(repr(d)))
            if abs(x - v) > abs(y - v): return 4
        return 0
    if n == 'verif_track_begin':
        mode = need_int(a[0])
        st.track = dict(mode=mode, epoch=set(b for b, o in st.objs.items() if o.kind in ('heap', 'global')), private=set(), ranges=[], locks=set())
        return None
    if n == 'verif_track_end':
        if st.track is not None and st.track['locks']:
            raise Violation('race', 'C17: tracked region ended with the allocator lock still held')
        st.track = None; return None
    if n == 'verif_track_private':
        if st.track is not None:
            o = st.find(need_int(a[0]))
            if o is not None: st.track['private'].add(o.base)
        return None
    if n == 'verif_track_shared_range':
        lo = need_int(a[0]); ln = need_int(a[1])
        if st.track is None: st.track = dict(mode=0, epoch=set(), private=set(), ranges=[], locks=set())
        st.track['ranges'].append((lo, lo + ln)); return None
    if n == 'verif_track_mode':
        if st.track is None: st.track = dict(mode=0, epoch=set(), private=set(), ranges=[], locks=set())
        st.track['mode'] = need_int(a[0]); return None
    if n == 'verif_is_undef_dependent':
        x = a[0]
        if type(x) is int: return 0
        from llsym import z3vars
        return int(any(k.startswith('undef!') for k in z3vars(x)))
    if n == 'verif_check_independent_mem':
        # every byte of p[0..len) must not depend on never-written memory
        from llsym import z3vars
        p_ = need_int(a[0]); ln = need_int(a[1])
        xs = [E.load_bytes(st, p_ + i, 1) for i in range(ln)]
        xs = [x for x in xs if type(x) is not int]
        dep = [x for x in xs if any(k.startswith('undef!') for k in z3vars(x))]
        if dep:
            allu = {}
            for e in st.pc + dep:
                for k, v in z3vars(e).items():
                    if k.startswith('undef!'): allu[k] = v
            sub = [(v, z3.BitVec(k + "'", 8)) for k, v in allu.items()]
            pc2 = [z3.substitute(e, *sub) for e in st.pc]
            diff = z3.Or(*[x != z3.substitute(x, *sub) for x in dep])
            if E.sat(st.pc + pc2, diff):
                st.model = E.last_model
                raise Violation('uninit', cstring(E, st, a[2]) + ': result depends on bytes outside the input')
        return None
    if n == 'verif_check_independent':
        # a value that must not depend on never-written memory
        x = a[0]
        if type(x) is int: return None
        from llsym import z3vars
        uv = [k for k in z3vars(x) if k.startswith('undef!')]
        if uv:
            allu = {}
            for e in st.pc + [x]:
                for k, v in z3vars(e).items():
                    if k.startswith('undef!'): allu[k] = v
            sub = [(v, z3.BitVec(k + "'", 8)) for k, v in allu.items()]
            x2 = z3.substitute(x, *sub); pc2 = [z3.substitute(e, *sub) for e in st.pc]
            if E.sat(st.pc + pc2, x != x2):
                st.model = E.last_model
                raise Violation('uninit', cstring(E, st, a[1]) + ': result depends on bytes outside the input')
        return None
    raise Inconclusive('unknown harness call ' + n)
