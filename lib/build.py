"""Compile a harness (which calls the real sonic-cpp headers in /repo/include) to LLVM IR / native replay binary.
Everything is rebuilt from /repo's current working tree on every run."""
import os, re, subprocess, hashlib, sys, tempfile, shutil

VERIF = os.path.dirname(os.path.dirname(os.path.abspath(__file__)))
REPO = os.environ.get('VERIF_REPO', '/repo')
CONFIGS = {
    'haswell': ['-mavx2', '-mpclmul', '-mbmi', '-mlzcnt'],
    'westmere': ['-msse4.2', '-mpclmul'],
    'dynamic': ['-mavx2', '-mpclmul', '-mbmi', '-mlzcnt', '-DSONIC_DYNAMIC_DISPATCH'],
}
BASE = ['-std=c++17', '-O1', '-fno-vectorize', '-fno-slp-vectorize', '-fno-unroll-loops', '-fno-exceptions', '-fno-rtti',
        '-fno-stack-protector', '-DSONIC_VERIF']


def workdir():
    d = os.environ.get('VERIF_WORK')
    if not d:
        d = os.path.join(VERIF, '_work')
    os.makedirs(d, exist_ok=True)
    return d


def run(cmd, **kw):
    r = subprocess.run(cmd, stdout=subprocess.PIPE, stderr=subprocess.PIPE, text=True, **kw)
    if r.returncode != 0:
        raise RuntimeError('command failed: %s\n%s' % (' '.join(cmd), r.stderr[-4000:]))
    return r.stdout


def compile_ir(src, config='haswell', defines=(), keep=None, tag=None, opt='-O1'):
    """src: path of harness .cpp. keep: list of regexes of (demangled-ish mangled) function names to keep out of line.
    Returns path of .ll"""
    wd = workdir()
    name = os.path.splitext(os.path.basename(src))[0]
    key = hashlib.sha1(repr((config, sorted(defines), keep, opt)).encode()).hexdigest()[:8]
    out = os.path.join(wd, '%s.%s.%s.ll' % (name, config, tag or key))
    flags = [f for f in BASE if f != '-O1'] + [opt] + CONFIGS[config] + ['-D' + d for d in defines]
    inc = ['-I' + os.path.join(VERIF, 'harness')]
    if keep is not None: inc.append('-I' + os.path.join(VERIF, 'shim'))
    inc.append('-I' + os.path.join(REPO, 'include'))
    pre = ['-Xclang', '-disable-llvm-passes'] if keep is not None else []
    run(['clang++-14'] + flags + pre + inc + ['-S', '-emit-llvm', src, '-o', out])
    if keep is not None:
        txt = open(out).read()
        txt = reinline(txt, keep)
        tmp = out + '.pre.ll'
        open(tmp, 'w').write(txt)
        run(['opt-14', '-O1', '-vectorize-loops=false', '-vectorize-slp=false', '-S', tmp, '-o', out])
        os.unlink(tmp)
    return out


def reinline(txt, keep):
    """Give every function that the shim made noinline (and is not on the keep-list) the alwaysinline attribute back."""
    pats = [re.compile(k) for k in keep]
    groups = {}
    for mm in re.finditer(r'^attributes #(\d+) = \{(.*)\}$', txt, re.M): groups[int(mm.group(1))] = mm.group(2)
    nxt = max(groups) + 1 if groups else 0
    newgroups = {}
    lines = txt.split('\n'); kept = []
    for i, ln in enumerate(lines):
        if not ln.startswith('define'): continue
        mm = re.search(r'@("[^"]+"|[-a-zA-Z$._0-9]+)\(', ln)
        fname = mm.group(1)
        am = re.search(r'#(\d+)( (comdat|align \d+|personality .*))* \{$', ln)
        if not am: continue
        g = int(am.group(1))
        body = groups.get(g, '')
        if fname.startswith('h_') or fname.startswith('verif_') or fname.startswith('ref_'): continue
        if any(p.search(fname) for p in pats):
            kept.append(fname)
            if ' noinline' not in ' ' + body:
                key = ('k', g)
                if key not in newgroups:
                    newgroups[key] = nxt; nxt += 1
                lines[i] = ln[:am.start(1)] + str(newgroups[key]) + ln[am.end(1):]
            continue
        if ' noinline' not in ' ' + body: continue
        if g not in newgroups:
            newgroups[g] = nxt; nxt += 1
        lines[i] = ln[:am.start(1)] + str(newgroups[g]) + ln[am.end(1):]
    for g, ng in newgroups.items():
        if isinstance(g, tuple):
            lines.append('attributes #%d = {%s noinline }' % (ng, groups[g[1]].replace(' alwaysinline', '').replace(' inlinehint', '')))
            continue
        body = re.sub(r'\bnoinline\b', 'alwaysinline', groups[g])
        lines.append('attributes #%d = {%s}' % (ng, body))
    reinline.kept = kept
    return '\n'.join(lines)


def compile_native(srcs, out, config='haswell', defines=(), asan=False, opt='-O1', extra=()):
    flags = ['-std=c++17', opt, '-g', '-fno-omit-frame-pointer', '-DSONIC_VERIF'] + CONFIGS[config] + ['-D' + d for d in defines]
    if asan == 'tsan': flags += ['-fsanitize=thread']
    elif asan: flags += ['-fsanitize=address,undefined', '-fno-sanitize-recover=undefined']
    flags += ['-pthread']
    inc = ['-I' + os.path.join(VERIF, 'harness'), '-I' + os.path.join(REPO, 'include')]
    run(['g++'] + flags + inc + list(srcs) + [os.path.join(VERIF, 'harness', 'verif_native.cpp'), '-rdynamic', '-ldl', '-o', out] + list(extra))
    return out
