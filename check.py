#!/usr/bin/env python3
"""Entry point of every registered check:  python3-vt check.py <ID> [--tier quick|thorough] [--replay FILE]"""
import sys, os, time, importlib, argparse
VERIF = os.path.dirname(os.path.abspath(__file__))
sys.path.insert(0, os.path.join(VERIF, 'lib')); sys.path.insert(0, os.path.join(VERIF, 'checks'))


def main():
    ap = argparse.ArgumentParser()
    ap.add_argument('pid'); ap.add_argument('--tier', default=os.environ.get('VERIF_TIER', 'quick'))
    ap.add_argument('--replay'); ap.add_argument('--only', default=None, help='regex: run only matching jobs (debugging)')
    a = ap.parse_args()
    seed = int(os.environ.get('VERIF_SEED', '1'))
    mod = importlib.import_module(a.pid.lower())
    t0 = time.time()
    if a.replay: sys.exit(mod.replay(a.replay))
    sys.exit(mod.main(a.tier, seed, t0, a.only))


main()
