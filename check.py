#!/usr/bin/env python3
"""Entry point of every registered check:  python3-vt check.py <ID> [--tier quick|thorough] [--replay FILE]"""
import sys, os, time, importlib, argparse
VERIF = os.path.dirname(os.path.abspath(__file__))
sys.path.insert(0, os.path.join(VERIF, 'lib')); sys.path.insert(0, os.path.join(VERIF, 'checks'))


def main():
    ap = argparse.ArgumentParser()
    ap.add_argument('pid'); ap.add_argument('--tier', default=os.environ.get('VERIF_TIER', 'quick'))
    ap.add_argument('--replay'); ap.add_argument('--only', default=None, help='regex: run only matching jobs (debugging)')
    a = ap.parse_args()
    seed = int(os.environ.get('VERIF_SEED', '1'))
    mod = importlib.import_module(a.pid.lower())
    t0 = time.time()
    if a.replay:
        import re, subprocess, runner
        head = open(a.replay).read()
        mm = re.search(r'# replay for harness (\S+) \((\S+)\)', head); m2 = re.search(r'# config=(\S+) defines=(.*)', head)
        spec = dict(entry=mm.group(1), src=mm.group(2), config=m2.group(1), defines=m2.group(2).split(), params=[])
        rc = 0
        for asan in (False, True):
            exe = runner.native_for(spec, asan)
            r = subprocess.run([exe, spec['entry'].lstrip('@'), a.replay], stdout=subprocess.PIPE, stderr=subprocess.STDOUT, text=True)
            print('--- %s build: exit %d' % ('ASan' if asan else '-O2', r.returncode)); print(r.stdout[-1500:])
            if r.returncode not in (0, 3): rc = 1
        if rc: print('VIOLATION property=%s replay=%s' % (a.pid, a.replay))
        sys.exit(rc)
    sys.exit(mod.main(a.tier, seed, t0, a.only))


main()
