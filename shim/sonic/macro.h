// Outlining shim (not a change to the library): placed first on the include path by lib/build.py when a check
// needs the real function boundaries back.  Everything the library marks force-inline becomes a normal
// out-of-line function; lib/build.py then restores `alwaysinline` on every function NOT on the check's keep-list
// and re-runs the inliner, so only the keep-list functions remain as calls.  Inlining does not change semantics.
#pragma once
#include_next <sonic/macro.h>
#undef sonic_force_inline
#define sonic_force_inline inline __attribute__((noinline))
